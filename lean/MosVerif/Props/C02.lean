/-
  C02 — The wire codec preserves message content.

  Model: `Model/Wire.lean` (decoder, shared with C01) and `Model/Pack.lean` (encoder with the
  compression table keyed exactly as `Name.pack` keys it).  All theorems below are for ALL
  messages — no bound on the number of questions/records, on name shapes or on RDATA sizes.
  `msgWF m` is not an extra assumption about the input: by `unpackMsg_wf` it holds for every
  message the decoder accepts ("every DNS message the proxy accepts").

  Ladder (helper lemmas in Lemmas/Codec*.lean):
   1. primitives: `enc16_roundtrip` …, `nameWF_iff_labels`, `nameWF_iff_decodable`
   2. names: `decode_literal`, `decode_prefix_pointer`
   3. table invariant: `tableOK_append`, `packName_correct`
   4. ★ `roundtrip_nocompress`, ★ `len_exact`
   5. ★ `roundtrip_compress`, `pack_fits`
   6. `unpackMsg_wf`, `decode_pack_canonical`, `header_bits_preserved`, `reencode_same_header`,
      `raw_bytes_verbatim`, `spec_model_ok`
   7. non-vacuity examples, `pins`
-/
import MosVerif.Lemmas.TranslatedC02
import MosVerif.Lemmas.TranslatedEncRR2
import MosVerif.Lemmas.TranslatedCodecMsg
import MosVerif.Lemmas.CodecWF
import MosVerif.Model.WireIO
namespace MosVerif.C02
open MosVerif.Wire

/-! ### 1. primitives -/

/-- `packUint16` then `unpackUint16` is the identity on 16-bit values. -/
theorem enc16_roundtrip (v : Nat) (h : v < 65536) (pre post : Bytes) :
    u16At (pre ++ (enc16 v ++ post)) pre.length = .ok (v, pre.length + 2) :=
  u16At_enc _ pre post _ v h rfl rfl

/-- `packUint32` then `unpackUint32` is the identity on 32-bit values. -/
theorem enc32_roundtrip (v : Nat) (h : v < 4294967296) (pre post : Bytes) :
    u32At (pre ++ (enc32 v ++ post)) pre.length = .ok (v, pre.length + 4) :=
  u32At_enc _ pre post _ v h rfl rfl

/-- …and the other way round: re-encoding decoded octets reproduces them. -/
theorem enc_of_be (a b c d : UInt8) : enc16 (be16 a b) = [a, b] ∧ enc32 (be32 a b c d) = [a, b, c, d] :=
  ⟨enc16_be16 a b, enc32_be32 a b c d⟩

/-- `scanName` accepts exactly: at most 254 octets, split into labels of 1..63 octets. -/
theorem nameWF_iff_labels (n : Name) : nameWF n = true ↔ n.length ≤ 254 ∧ Labels n := nameWF_iff n

/-- The well-formed names are exactly the names the decoder can produce. -/
theorem nameWF_iff_decodable (n : Name) :
    nameWF n = true ↔ ∃ msg off o, unpackName msg off = .ok (n, o) := Wire.nameWF_iff_decodable n

/-! ### 2. names -/

/-- Decoding the literal encoding `n ++ [0]` of a well-formed name placed at any offset of any
    buffer yields `n` and the offset behind the terminator; later appends (`post`) do not matter. -/
theorem decode_literal (n : Name) (hn : nameWF n = true) (pre post : Bytes) :
    unpackName (pre ++ (n ++ 0 :: post)) pre.length = .ok (n, pre.length + n.length + 1) :=
  Wire.decode_literal n hn pre post

/-- Decoding `labels-prefix ++ pointer(off)`, where a literal `s ++ [0]` sits at `off ≤ 0x3FFF`
    of the same buffer, yields `prefix ++ s` — one hop, inside the decoder's hop limit of 10. -/
theorem decode_prefix_pointer (p s : Name) (hp : Labels p) (hs : Labels s) (hlen : p.length + s.length ≤ 254)
    (pre post pre2 post2 : Bytes) (off : Nat) (hoff : off ≤ 0x3FFF)
    (hbuf : pre ++ (p ++ ptrBytes off ++ post) = pre2 ++ (s ++ 0 :: post2)) (hpre2 : pre2.length = off) :
    unpackName (pre ++ (p ++ ptrBytes off ++ post)) pre.length = .ok (p ++ s, pre.length + p.length + 2) :=
  Wire.decode_prefix_pointer p s hp hs hlen pre post pre2 post2 off hoff hbuf hpre2

/-! ### 3. the compression table invariant -/

/-- The invariant survives every later append (RDLENGTH is produced functionally, so nothing
    that was already written ever changes). -/
theorem tableOK_append (buf x : Bytes) (t : Table) (h : TableOK buf t) : TableOK (buf ++ x) t := h.append x

/-- `packName` on a buffer whose table satisfies the invariant: succeeds, keeps the invariant
    for the extended buffer, writes at most `len+1` octets (exactly that many without compression),
    and decoding at the old end of the buffer yields the name — whatever is appended afterwards. -/
theorem packName_correct (buf : Bytes) (tbl : Option Table) (n : Name) (hn : nameWF n = true)
    (hT : TableOK' buf tbl) :
    ∃ bs tbl', packName buf.length tbl n = .ok (bs, tbl') ∧ TableOK' (buf ++ bs) tbl' ∧
      bs.length ≤ n.length + 1 ∧ (tbl = none → bs.length = n.length + 1) ∧
      ∀ post, unpackName (buf ++ (bs ++ post)) buf.length = .ok (n, buf.length + bs.length) := by
  obtain ⟨bs, tbl', h, hE⟩ := packName_enc buf buf.length rfl tbl n hn hT
  exact ⟨bs, tbl', h, hE.table, hE.le, hE.exact, fun post => hE.reads _ post rfl⟩

/-! ### 4./5. whole messages -/

/-- ★ Without compression and without size limit, every well-formed message is encoded into a
    buffer of `Msg.Len()` octets, the encoding has exactly that length, and it decodes to the same
    message: all header fields, any number of questions and records, every typed record and raw
    types, arbitrary label octets, empty RDATA. -/
theorem roundtrip_nocompress (m : Msg) (hm : msgWF m = true) :
    ∃ bs, packMsg m false 0 (msgLen m) = .ok bs ∧ bs.length = msgLen m ∧ unpackMsg bs = .ok m := by
  obtain ⟨bs, h1, _, h3, h4, _⟩ := packMsg_roundtrip m false hm
  exact ⟨bs, h1, h3 rfl, h4⟩

/-- ★ With name compression: the encoding fits the `Msg.Len()` buffer (compression never grows
    the output) and decodes to the same message — names octet-exact, also inside RDATA.  There is
    no hypothesis on pointer-chain depth: table entries always denote literal names, so every
    emitted pointer is resolved in one hop. -/
theorem roundtrip_compress (m : Msg) (hm : msgWF m = true) :
    ∃ bs, packMsg m true 0 (msgLen m) = .ok bs ∧ bs.length ≤ msgLen m ∧ unpackMsg bs = .ok m := by
  obtain ⟨bs, h1, h2, _, h4, _⟩ := packMsg_roundtrip m true hm
  exact ⟨bs, h1, h2, h4⟩

/-- ★ The uncompressed encoding has exactly the advertised length `Msg.Len()`. -/
theorem len_exact (m : Msg) (hm : msgWF m = true) (bs : Bytes)
    (h : packMsg m false 0 (msgLen m) = .ok bs) : bs.length = msgLen m := by
  obtain ⟨bs', h1, h2, _⟩ := roundtrip_nocompress m hm
  rw [h] at h1; cases h1; exact h2

/-- A buffer of `Msg.Len()` octets always suffices (no `ErrSmallBuffer`), compressed or not. -/
theorem pack_fits (m : Msg) (c : Bool) (hm : msgWF m = true) :
    ∃ bs, packMsg m c 0 (msgLen m) = .ok bs ∧ bs.length ≤ msgLen m := by
  obtain ⟨bs, h1, h2, _⟩ := packMsg_roundtrip m c hm
  exact ⟨bs, h1, h2⟩

/-! ### 6. what the decoder accepts -/

/-- Every message the decoder accepts is well formed. -/
theorem unpackMsg_wf (b : Bytes) (m : Msg) (h : unpackMsg b = .ok m) : msgWF m = true := unpackMsg_wf' h

/-- ★ The property as stated: every message the proxy accepts — including messages that arrived
    with compression pointers in owner names or RDATA — is re-encoded, with or without
    compression, to wire data that decodes to the same message. -/
theorem decode_pack_canonical (b : Bytes) (m : Msg) (h : unpackMsg b = .ok m) (c : Bool) :
    ∃ bs, packMsg m c 0 (msgLen m) = .ok bs ∧ unpackMsg bs = .ok m := by
  obtain ⟨bs, h1, _, _, h4, _⟩ := packMsg_roundtrip m c (unpackMsg_wf b m h)
  exact ⟨bs, h1, h4⟩

/-- ★ No header bit is lost by decoding: re-encoding the decoded flag word gives back ALL 16 bits
    (QR, opcode, AA, TC, RD, RA, the reserved bit Z, AD, CD, rcode) and the id. -/
theorem header_bits_preserved (id bits : Nat) (hid : id < 65536) (hb : bits < 65536) :
    (headerOfBits id bits).id = id ∧ bitsOfHeader (headerOfBits id bits) = bits ∧
    headerWF (headerOfBits id bits) = true := by
  refine ⟨rfl, bitsOfHeader_headerOfBits id bits hb, ?_⟩
  simp only [headerWF, headerOfBits, u16, Bool.and_eq_true]
  exact ⟨⟨decide_eq_true hid, decide_eq_true (by omega)⟩, decide_eq_true (by omega)⟩

/-- ★ Re-encoding an accepted message without compression reproduces the first four octets of
    the input (id and the complete flag word — "any header bits") and decodes to the same message. -/
theorem reencode_same_header (b : Bytes) (m : Msg) (h : unpackMsg b = .ok m) :
    ∃ re, packMsg m false 0 (msgLen m) = .ok re ∧ re.take 4 = b.take 4 ∧ unpackMsg re = .ok m := by
  obtain ⟨re, h1, _, _, h4, _, h6⟩ := packMsg_roundtrip m false (unpackMsg_wf b m h)
  obtain ⟨i0, i1, b0, b1, rest, hb, hh⟩ := unpackMsg_hdr_inv h
  refine ⟨re, h1, ?_, h4⟩
  rw [h6, hh, hb]
  simp only [headerOfBits]
  have := bitsOfHeader_headerOfBits (be16 i0 i1) (be16 b0 b1) (be16_lt _ _)
  simp only [headerOfBits] at this
  rw [this, enc16_be16, enc16_be16]
  rfl

/-- Records of types the proxy does not interpret are carried byte for byte: their RDATA octets
    appear in the output verbatim, preceded by their length, with or without compression. -/
theorem raw_bytes_verbatim (m : Msg) (c : Bool) (hm : msgWF m = true) (bs : Bytes)
    (h : packMsg m c 0 (msgLen m) = .ok bs) (r : Resource) (d : Bytes)
    (hr : r ∈ m.answers ∨ r ∈ m.authorities ∨ r ∈ m.additionals) (hd : r.rdata = .raw d) :
    ∃ pre post, bs = pre ++ (enc16 d.length ++ d ++ post) := by
  obtain ⟨bs', h1, _, _, _, h5⟩ := packMsg_roundtrip m c hm
  rw [h] at h1; cases h1
  exact h5.1 r d hr hd

/-- The executable specification used as the oracle on the implementation's bytes
    (`WireIO.packSpec`, size 0) accepts the model's own output for every well-formed message. -/
theorem spec_model_ok (m : Msg) (c : Bool) (hm : msgWF m = true) :
    ∃ bs, packMsg m c 0 (msgLen m) = .ok bs ∧
      WireIO.packSpec m 0 ⟨msgLen m, bs, none, none⟩ = "ok" := by
  obtain ⟨bs, h1, _, _, h4, _⟩ := packMsg_roundtrip m c hm
  refine ⟨bs, h1, ?_⟩
  simp [WireIO.packSpec, h4]

/-! ### 7. non-vacuity and pins -/

/-- `a.b` -/
def nAB : Name := [1, 97, 1, 98]
/-- `x.a.b` (shares the suffix `a.b`) -/
def nXAB : Name := [1, 120, 1, 97, 1, 98]
/-- `\x03a\x01b`: one label whose octets look like the name `a.b` (defect D1's collision partner) -/
def nTricky : Name := [3, 97, 1, 98]

/-- a response with two questions and records of several kinds, sharing suffixes -/
def exMsg : Msg :=
  { hdr := ⟨0x1234, true, 2, true, false, true, true, false, true, 3, true⟩
    questions := [⟨nAB, 1, 1⟩, ⟨nTricky, 28, 1⟩]
    answers := [⟨nAB, 1, 1, 300, .a [1, 2, 3, 4]⟩, ⟨nXAB, 5, 1, 60, .name nAB⟩,
      ⟨nTricky, 15, 1, 60, .mx 10 nXAB⟩]
    authorities := [⟨nAB, 6, 1, 3600, .soa nXAB nAB 1 2 3 4 5⟩]
    additionals := [⟨nXAB, 33, 1, 5, .srv 1 2 443 nAB⟩, ⟨[], 41, 1232, 0, .raw []⟩, ⟨nAB, 99, 1, 0, .raw [7, 7]⟩] }

/-- the hypotheses of the round-trip theorems are satisfiable by a non-trivial message -/
example : msgWF exMsg = true := by decide

set_option maxRecDepth 100000 in
/-- on it compression really emits pointers: the output is strictly shorter than `Msg.Len()` -/
example : ∃ bs, packMsg exMsg true 0 (msgLen exMsg) = .ok bs ∧ bs.length < msgLen exMsg ∧ unpackMsg bs = .ok exMsg := by
  obtain ⟨bs, h1, _, h3⟩ := roundtrip_compress exMsg (by decide)
  refine ⟨bs, h1, ?_, h3⟩
  have : (match packMsg exMsg true 0 (msgLen exMsg) with | .ok b => decide (b.length < msgLen exMsg) | _ => false) = true := by
    decide
  rw [h1] at this
  simpa using this

/-- the two names of defect D1 (`\x03a\x01b` then `a.b`) no longer collide in the table:
    the second is written in full, not as a pointer into the first -/
example : packName 12 (some [(nTricky, 12)]) nAB = .ok (nAB ++ [0], some (registerSuffixes 4 [(nTricky, 12)] 12 nAB)) := by
  decide

/-! tie: there is no textual pin left.  The compression-table key expressions (`compression[string(n[labelStart-1:])]`,
    `compression[unsafeStr[suffixStart:]] = uint16(newPtr)`) and the 14-bit pointer guard are part of the functions
    regenerated from name.go and proved EQUAL to the model: `Wire.Name_pack_translated` (Lemmas/TranslatedEncName),
    with the leaf writers (`pack*_translated`, Lemmas/TranslatedEnc) and the packers of question.go / rr.go
    (`Question_pack_tied`, `A_pack_tied`, … ). -/

end MosVerif.C02
