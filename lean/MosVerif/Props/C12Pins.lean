/-
  C12 — source facts (regenerated from /repo's working tree on every run) the EDNS0 / ECS model depends on.
  Kept in its own module; imported by Props/C12.lean.
-/
import MosVerif.Generated.Facts
namespace MosVerif.C12

/-- (`length4/6`, `family4/6`, the guard `r.opt.ecsEnabled && remoteAddr.IsValid()` of `packReq` and the size floor of
    `newEDNS0` are tied by translation: `Lemmas/TranslatedC12.lean`) -/
theorem pins :
    Facts.udpSize = 1200 ∧ Facts.ecs_mask4 = 24 ∧ Facts.ecs_mask6 = 56 ∧ Facts.ecs_truncated4 = 3 ∧
    Facts.ecs_truncated6 = 7 ∧
    Facts.ecs_unmap = "addr = addr.Unmap()" ∧ Facts.fwd_removeEdns0 = "dnsmsg.RemoveEDNS0(resp)" := by decide

set_option maxRecDepth 8000 in
/-- EDNS0 ends at the proxy: `RemoveEDNS0` (applied to every upstream reply) drops every OPT record of every
    section and keeps the order of the others (`Router.stripOpt`); a query "has an OPT" if one is in any section
    (`Router.queryHasOptAny`); the empty answer of the limiter / overload paths gets the proxy's OPT iff so. -/
theorem pins_opt :
    Facts.opt_support = "clientSupportEDNS0 := queryOpt(m) != nil" ∧
    Facts.queryOpt_body = "{ for _, rs := range [...][]dnsmsg.Resource{m.Additionals, m.Authorities, m.Answers} { for _, rr := range rs { if hdr := rr.Hdr(); hdr.Type == dnsmsg.TypeOPT { return hdr } } } return nil }" ∧
    Facts.removeEDNS0_body = "{ m.Answers = removeOpt(m.Answers) m.Authorities = removeOpt(m.Authorities) m.Additionals = removeOpt(m.Additionals) }" ∧
    Facts.removeOpt_body = "{ n := 0 for _, r := range rs { if r.Hdr().Type == TypeOPT { ReleaseResource(r) continue } rs[n] = r n++ } for i := n; i < len(rs); i++ { rs[i] = nil } return rs[:n] }" ∧
    Facts.fallback_opt = "if queryOpt(query) != nil { resp.Additionals = append(resp.Additionals, newEDNS0(udpSize)) }" := by decide

end MosVerif.C12
