/-
  C09 — Responses respect the transport size limit and truncate well-formedly.

  Model: `packMsg m compression size cap` (Model/Pack.lean: floor 512, `PopEDNS0` swap-remove,
  budget = limit − OPT size, per-element skip with `continue`, OPT re-appended last, header with
  TC and the reduced counts written last) and the router's wrappers (Model/RespIO.lean).
  All theorems: ALL messages, ALL limits, compression on and off.

  Notation: `effSize size` = the limit after the floor (`max 512 size` for `size > 0`),
  `popped m size = (edns0Opt, additionals after PopEDNS0)`, `keptMsg m c size` = the sub-message the
  loops retain (explicitly computed), OPT re-appended last, `Truncated` or-ed with "something skipped".
-/
import MosVerif.Lemmas.TranslatedC09
import MosVerif.Lemmas.TranslatedEncRR2
import MosVerif.Lemmas.CodecTruncProps
import MosVerif.Model.RespIO
namespace MosVerif.C09
open MosVerif.Wire

/-- the limit the loops work with -/
theorem effSize_spec (size : Nat) : effSize 0 = 0 ∧ (0 < size → effSize size = max 512 size) :=
  ⟨effSize_zero, effSize_eq_max⟩

/-- `trunc_is_pack_of_kept`: a size-limited `Msg.Pack` that succeeds writes exactly the bytes of the
    unlimited `Msg.Pack` of the retained sub-message — TC set iff something was skipped, counts =
    what is present.  No well-formedness hypothesis. This reduces everything below to C02. -/
theorem trunc_is_pack_of_kept (m : Msg) (c : Bool) (size cap : Nat) (out : Bytes)
    (h : packMsg m c size cap = .ok out) : packMsg (keptMsg m c size) c 0 cap = .ok out :=
  packMsg_kept m c size cap (packMsg_ok_counts h) out h

/-- ★ `counts_match_present`: the output of a size-limited pack of a well-formed message decodes
    cleanly (the section counts equal the records actually present) to the retained sub-message. -/
theorem counts_match_present (m : Msg) (c : Bool) (size cap : Nat) (hm : msgWF m = true) (out : Bytes)
    (h : packMsg m c size cap = .ok out) : unpackMsg out = .ok (keptMsg m c size) :=
  packMsg_decodes m c size cap hm out h

/-- "something was omitted": some section of `k` is shorter than in `m` -/
def dropped (m k : Msg) : Bool :=
  decide (k.questions.length < m.questions.length ∨ k.answers.length < m.answers.length ∨
    k.authorities.length < m.authorities.length ∨ k.additionals.length < m.additionals.length)

/-- ★ `tc_iff_dropped`: the decoded output carries the original header with TC set iff it was
    already set or a question/record was omitted; every other header field is unchanged. -/
theorem tc_iff_dropped (m : Msg) (c : Bool) (size cap : Nat) (hm : msgWF m = true) (out : Bytes)
    (h : packMsg m c size cap = .ok out) :
    ∃ k, unpackMsg out = .ok k ∧
      k.hdr = { m.hdr with truncated := m.hdr.truncated || dropped m k } := by
  refine ⟨keptMsg m c size, packMsg_decodes m c size cap hm out h, ?_⟩
  obtain ⟨kq, ka, kn, kx, b4, hh, l1, l2, l3, l4, _⟩ := packMsg_ok_wf m c size cap hm out h
  rw [hh]
  have : decide (kq + ka + kn + kx > 0) = dropped m (keptMsg m c size) := by
    unfold dropped
    by_cases hz : kq + ka + kn + kx > 0
    · rw [decide_eq_true hz, eq_comm, decide_eq_true_iff]; omega
    · rw [decide_eq_false hz, eq_comm, decide_eq_false_iff_not]; omega
  rw [this]

/-- ★ `kept_sublist`: the kept questions, answers and authorities are sub-lists of the originals
    (same records, unmodified, original relative order); the additionals are a sub-list of the
    (swap-removed) additionals followed by the OPT record. -/
theorem kept_sublist (m : Msg) (c : Bool) (size cap : Nat) (out : Bytes) (h : packMsg m c size cap = .ok out) :
    (keptMsg m c size).questions.Sublist m.questions ∧ (keptMsg m c size).answers.Sublist m.answers ∧
    (keptMsg m c size).authorities.Sublist m.authorities ∧
    ∃ kx, (keptMsg m c size).additionals = kx ++ (popped m size).1.toList ∧ kx.Sublist (popped m size).2 := by
  obtain ⟨s1, kq, s2, ka, s3, kn, s4, kx, s5, _, _, _, _, _, _, _, hk, _⟩ :=
    packMsg_ok_shape m c size cap (packMsg_ok_counts h) out h
  rw [hk]
  exact ⟨keptQ_sublist _ _ _, keptR_sublist _ _ _, keptR_sublist _ _ _, _, rfl, keptR_sublist _ _ _⟩

/-- General size bound: whenever a budget is in force (`limitOf = some L`), the output is at most
    `max L 12` plus the OPT record. -/
theorem size_le_general (m : Msg) (c : Bool) (size cap : Nat) (hm : msgWF m = true) (out : Bytes)
    (h : packMsg m c size cap = .ok out) (L : Nat) (hL : limitOf m size = some L) :
    out.length ≤ max L 12 + ((popped m size).1.toList.map resourcePackLen).sum := by
  obtain ⟨kq, ka, kn, kx, b4, _, _, _, _, _, hlen, hb, _⟩ := packMsg_ok_wf m c size cap hm out h
  have := hb L hL
  omega

/-- ★ `size_le`: with a limit `size > 0` the output never exceeds `max 512 size`, provided the OPT
    record alone leaves room for the header (`OPT + 12 ≤ limit`; the router's OPT has 11 octets). -/
theorem size_le (m : Msg) (c : Bool) (size cap : Nat) (hm : msgWF m = true) (hpos : 0 < size) (out : Bytes)
    (hopt : ∀ o, (popped m size).1 = some o → resourcePackLen o + 12 ≤ max 512 size)
    (h : packMsg m c size cap = .ok out) : out.length ≤ max 512 size := by
  have he := effSize_eq_max hpos
  rcases limitOf_cases m size with ⟨h0, _⟩ | ⟨_, hn, hL⟩ | ⟨_, o, ho, ⟨hlt, hL⟩ | ⟨hge, _⟩⟩
  · omega
  · have := size_le_general m c size cap hm out h _ hL
    rw [hn] at this
    simp only [Option.toList_none, List.map_nil, List.sum_nil] at this
    omega
  · have := size_le_general m c size cap hm out h _ hL
    have hb := hopt o ho
    rw [ho] at this
    simp only [Option.toList_some, List.map_cons, List.map_nil, List.sum_cons, List.sum_nil] at this
    omega
  · have hb := hopt o ho
    omega

/-- ★ `fits_untouched`: if the uncompressed encoding already fits the limit, nothing is omitted and
    TC is not added — the retained message is the original (the OPT record, if any, moved last). -/
theorem fits_untouched (m : Msg) (c : Bool) (size cap : Nat) (hm : msgWF m = true) (out : Bytes)
    (hfit : msgLen m ≤ effSize size) (h : packMsg m c size cap = .ok out) :
    keptMsg m c size = { m with additionals := (popped m size).2 ++ (popped m size).1.toList } := by
  obtain ⟨kq, ka, kn, kx, b4, hh, l1, l2, l3, l4, _, _, hz⟩ := packMsg_ok_wf m c size cap hm out h
  obtain ⟨sq, sa, sn, kx', hkx, sx⟩ := kept_sublist m c size cap out h
  have hsum := popped_sum m size resourcePackLen
  have hpl := popped_length m size
  have hk0 : kq = 0 ∧ ka = 0 ∧ kn = 0 ∧ kx = 0 := by
    apply hz
    rcases limitOf_cases m size with ⟨_, hL⟩ | ⟨_, hn, hL⟩ | ⟨_, o, ho, ⟨hlt, hL⟩ | ⟨_, hL⟩⟩
    · exact Or.inl hL
    · right
      refine ⟨_, hL, ?_⟩
      rw [hn] at hsum
      simp only [Option.toList_none, List.map_nil, List.sum_nil] at hsum
      unfold msgLen at hfit; omega
    · right
      refine ⟨_, hL, ?_⟩
      rw [ho] at hsum
      simp only [Option.toList_some, List.map_cons, List.map_nil, List.sum_cons, List.sum_nil] at hsum
      unfold msgLen at hfit; omega
    · exact Or.inl hL
  obtain ⟨rfl, rfl, rfl, rfl⟩ := hk0
  have e1 := sq.eq_of_length (by omega)
  have e2 := sa.eq_of_length (by omega)
  have e3 := sn.eq_of_length (by omega)
  have e4 : kx' = (popped m size).2 := by
    apply sx.eq_of_length
    rw [hkx, List.length_append] at l4; omega
  have e5 : (keptMsg m c size).hdr = m.hdr := by rw [hh]; cases m.hdr; simp
  cases hkm : keptMsg m c size with
  | mk hdr qs an ns ar =>
    rw [hkm] at e1 e2 e3 e5 hkx
    simp only at e1 e2 e3 e5 hkx
    subst e1 e2 e3 e5
    rw [hkx, e4]

/-- ★ `question_and_opt_kept`: a response with at most one question keeps it, and the OPT record is
    retained (as the last additional), provided the OPT record has at most 241 octets (so that
    header + a maximal question + OPT fit in 512). -/
theorem question_and_opt_kept (m : Msg) (c : Bool) (size cap : Nat) (out : Bytes)
    (hq1 : m.questions.length ≤ 1) (hopt : ∀ o, (popped m size).1 = some o → resourcePackLen o ≤ 241)
    (h : packMsg m c size cap = .ok out) :
    (keptMsg m c size).questions = m.questions ∧
    ∀ o, (popped m size).1 = some o → (keptMsg m c size).additionals.getLast? = some o := by
  obtain ⟨s1, kq, s2, ka, s3, kn, s4, kx, s5, _, _, _, _, _, _, _, hk, _⟩ :=
    packMsg_ok_shape m c size cap (packMsg_ok_counts h) out h
  rw [hk]
  refine ⟨?_, fun o ho => by simp [ho]⟩
  simp only
  match hqs : m.questions with
  | [] => simp [keptQ]
  | [q] =>
    have hql : questionLen q ≤ 259 := by have := namePackLen_le q.name; unfold questionLen; omega
    have hns : skips (limitOf m size) (12 + (initState c).body.length) (questionLen q) = false := by
      simp only [initState, List.length_nil]
      rcases limitOf_cases m size with ⟨_, hL⟩ | ⟨hp, _, hL⟩ | ⟨hp, o, ho, ⟨hlt, hL⟩ | ⟨_, hL⟩⟩
      · simp [hL, skips]
      · have := effSize_pos_ge hp; simp only [hL, skips, decide_eq_false_iff_not]; omega
      · have := effSize_pos_ge hp; have := hopt o ho
        simp only [hL, skips, decide_eq_false_iff_not]; omega
      · simp [hL, skips]
    simp only [keptQ, hns, Bool.false_eq_true, if_false]
    split <;> rfl
  | _ :: _ :: _ => rw [hqs] at hq1; simp at hq1

/-- `opt_ge_size_unbounded` (the honest corner): if the OPT record alone is at least as large as
    the limit, `size -= opt.packLen()` drops to ≤ 0, which the loops read as "no limit": nothing
    is omitted, whatever the size. -/
theorem opt_ge_size_unbounded (m : Msg) (c : Bool) (size cap : Nat) (out : Bytes) (o : Resource)
    (ho : (popped m size).1 = some o) (hge : effSize size ≤ resourcePackLen o)
    (h : packMsg m c size cap = .ok out) :
    limitOf m size = none ∧ (keptMsg m c size).questions = m.questions ∧
    (keptMsg m c size).answers = m.answers ∧ (keptMsg m c size).authorities = m.authorities ∧
    (keptMsg m c size).additionals = (popped m size).2 ++ [o] := by
  have hL : limitOf m size = none := by
    rcases limitOf_cases m size with ⟨_, hL⟩ | ⟨_, hn, _⟩ | ⟨_, o', ho', ⟨hlt, _⟩ | ⟨_, hL⟩⟩
    · exact hL
    · rw [hn] at ho; simp at ho
    · rw [ho] at ho'; simp only [Option.some.injEq] at ho'; subst ho'; omega
    · exact hL
  obtain ⟨s1, kq, s2, ka, s3, kn, s4, kx, s5, h1, h2, h3, h4, _, _, _, hk, l1, l2, l3, l4⟩ :=
    packMsg_ok_shape m c size cap (packMsg_ok_counts h) out h
  rw [hL] at h1 h2 h3 h4 l1 l2 l3 l4
  have k1 := packQuestionsLoop_none_k _ _ _ _ h1
  have k2 := packResourcesLoop_none_k _ _ _ _ h2
  have k3 := packResourcesLoop_none_k _ _ _ _ h3
  have k4 := packResourcesLoop_none_k _ _ _ _ h4
  subst k1 k2 k3 k4
  rw [hk, hL, ho]
  refine ⟨rfl, ?_, ?_, ?_, ?_⟩
  · exact (keptQ_sublist _ _ _).eq_of_length (by omega)
  · exact (keptR_sublist _ _ _).eq_of_length (by omega)
  · exact (keptR_sublist _ _ _).eq_of_length (by omega)
  · simp only [Option.toList_some]
    rw [(keptR_sublist none (popped m size).2 s3).eq_of_length (by omega)]

/-- the OPT record the router itself builds (`newEDNS0`: root owner, empty RDATA) has 11 octets,
    so the budget hypotheses of `size_le` (≤ 500) and `question_and_opt_kept` (≤ 241) hold for it -/
theorem router_opt_is_11 (o : Resource) (hn : o.name = []) (hd : o.rdata = .raw []) : resourcePackLen o = 11 := by
  simp [resourcePackLen, hn, hd, namePackLen, rdataPackLen]

/-! ### the router's wrappers -/

/-- ★ `packResp` (UDP, DoH): at most `max 512 (min size 65535)` octets for `size > 0`;
    in particular a DoH body (`size = 65535`) never exceeds 65535 octets. -/
theorem packResp_le (m : Msg) (c : Bool) (size : Nat) (hm : msgWF m = true) (hpos : 0 < size) (out : Bytes)
    (hopt : ∀ o, (popped m (min size 65535)).1 = some o → resourcePackLen o + 12 ≤ max 512 (min size 65535))
    (h : packResp m c size = .ok out) : out.length ≤ max 512 (min size 65535) := by
  unfold packResp at h
  have hc : respCap = 65535 := by decide
  rw [hc] at h
  have he : (if size > 65535 then 65535 else size) = min size 65535 := by split <;> omega
  simp only [he] at h
  exact size_le m c (min size 65535) (msgLen m) hm (by omega) out hopt h

/-- ★ `packRespTCP` (TCP, DoT, DoQ): the frame is a 2-octet prefix holding exactly the body
    length, and the body never exceeds 65535 octets. -/
theorem packRespTCP_frame (m : Msg) (c : Bool) (hm : msgWF m = true) (out : Bytes)
    (hopt : ∀ o, (popped m 65535).1 = some o → resourcePackLen o + 12 ≤ 65535)
    (h : packRespTCP m c = .ok out) :
    ∃ p0 p1 body, out = p0 :: p1 :: body ∧ be16 p0 p1 = body.length ∧ body.length ≤ 65535 ∧
      packMsg m c 65535 (msgLen m) = .ok body := by
  unfold packRespTCP at h
  have hc : respCap = 65535 := by decide
  rw [hc] at h
  obtain ⟨body, hb, h2⟩ := Res.bind_eq_ok h
  have hle : body.length ≤ 65535 := by
    have := size_le m c 65535 (msgLen m) hm (by omega) body (by intro o ho; have := hopt o ho; omega) hb
    omega
  simp only [Res.ok.injEq] at h2
  have hmod : body.length % 65536 = body.length := Nat.mod_eq_of_lt (by omega)
  refine ⟨UInt8.ofNat (body.length / 256 % 256), UInt8.ofNat (body.length % 256), body, ?_,
    be16_enc16 _ (by omega), hle, hb⟩
  rw [← h2, hmod]; rfl

/-- ★ the UDP server's client limit is `min 65507 (max 512 (class of the query's OPT record))`. -/
theorem clientUdpSize_spec (q : Msg) :
    clientUdpSize q = min 65507 (max 512 (match queryOpt q with | some o => o.rclass | none => 0)) := by
  unfold clientUdpSize udpClamp
  have hf : udpFloor = 512 := by decide
  have hm : udpMax = 65507 := by decide
  rw [hf, hm]
  cases queryOpt q with
  | none => simp
  | some o =>
    simp only
    by_cases h1 : o.rclass < 512 <;> by_cases h2 : o.rclass > 65507 <;> simp [h1, h2] <;> omega

/-- ★ end to end for UDP: the datagram never exceeds `max 512 (advertised size)` nor the largest UDP
    payload 65507, under the budget hypothesis on the response's OPT record. -/
theorem udp_response_le (q m : Msg) (hm : msgWF m = true) (out : Bytes)
    (hopt : ∀ o, (popped m (clientUdpSize q)).1 = some o → resourcePackLen o + 12 ≤ 512)
    (h : packResp m true (clientUdpSize q) = .ok out) :
    out.length ≤ clientUdpSize q ∧ clientUdpSize q ≤ 65507 ∧
    clientUdpSize q ≤ max 512 (match queryOpt q with | some o => o.rclass | none => 0) := by
  have hs := clientUdpSize_spec q
  have hge : 512 ≤ clientUdpSize q := by rw [hs]; omega
  have hle : clientUdpSize q ≤ 65507 := by rw [hs]; omega
  have hmin : min (clientUdpSize q) 65535 = clientUdpSize q := by omega
  have := packResp_le m true _ hm (by omega) out
    (by rw [hmin]; intro o ho; have := hopt o ho; omega) h
  refine ⟨by omega, hle, by rw [hs]; omega⟩

/-! ### non-vacuity and the corner made concrete -/

/-- ten 100-octet records at limit 512 (the shape of defect D3) -/
def big (i : Nat) : Resource := ⟨[1, 116], 16, 1, 60, .raw (List.replicate 100 (UInt8.ofNat i))⟩
def exResp : Msg :=
  { hdr := ⟨7, true, 0, false, false, true, true, false, false, 0, false⟩
    questions := [⟨[1, 116], 16, 1⟩]
    answers := [big 1, big 2, big 3, big 4, big 5, big 6]
    authorities := []
    additionals := [⟨[], 41, 1232, 0, .raw []⟩, ⟨[1, 120], 1, 1, 5, .a [1, 2, 3, 4]⟩] }

example : msgWF exResp = true := by decide

set_option maxRecDepth 100000 in
/-- on it the limit 512 really drops records, sets TC, and keeps question, OPT and the small record -/
example : ∃ out, packMsg exResp true 512 (msgLen exResp) = .ok out ∧ out.length ≤ 512 ∧
    (keptMsg exResp true 512).hdr.truncated = true ∧
    (keptMsg exResp true 512).answers.length = 4 ∧
    (keptMsg exResp true 512).questions = exResp.questions ∧
    (keptMsg exResp true 512).additionals.length = 2 := by
  have h : (match packMsg exResp true 512 (msgLen exResp) with
      | .ok out => decide (out.length ≤ 512) | _ => false) = true := by decide
  cases hp : packMsg exResp true 512 (msgLen exResp) with
  | ok out =>
    rw [hp] at h
    refine ⟨out, rfl, by simpa using h, ?_, ?_, ?_, ?_⟩ <;> decide
  | err => rw [hp] at h; simp at h
  | panic => rw [hp] at h; simp at h

/-- the corner: an OPT record of 531 octets at limit 512 — the limit is silently ignored and the
    datagram has more than 512 octets -/
def exCorner : Msg :=
  { hdr := ⟨7, true, 0, false, false, true, true, false, false, 0, false⟩
    questions := [⟨[1, 116], 16, 1⟩]
    answers := [⟨[1, 116], 1, 1, 60, .a [1, 2, 3, 4]⟩]
    authorities := []
    additionals := [⟨[], 41, 1232, 0, .raw (List.replicate 520 0)⟩] }

set_option maxRecDepth 100000 in
example : (match packMsg exCorner false 512 (msgLen exCorner) with
    | .ok out => decide (512 < out.length) | _ => false) = true := by decide

set_option maxRecDepth 100000 in
/-- tie: the constants and statements of `Msg.Pack`, `packResp`, `packRespTCP` and the UDP handler
    the model is written against. -/
theorem pins :
    Facts.pack_minSize = 512 ∧ Facts.pack_minSizeAssign = 512 ∧
    Facts.pack_continueCount = 4 ∧ Facts.pack_breakCount = 0 ∧ Facts.pack_tcCount = 4 ∧ Facts.pack_decCount = 4 ∧
    Facts.pack_hdrWritten = "h.pack(b[:12])" ∧
    Facts.resp_cap = 65535 ∧ Facts.resp_capAssign = 65535 ∧ Facts.resp_tcpSize = "65535" ∧
    Facts.resp_tcpPrefix = "binary.BigEndian.PutUint16(b, uint16(n))" ∧
    Facts.udp_fromOpt = "clientUdpSize = int(hdr.Class)" ∧ Facts.udp_fromOptInit = "hdr := queryOpt(m)" ∧
    Facts.udp_queryOpt = "{ for _, rs := range [...][]dnsmsg.Resource{m.Additionals, m.Authorities, m.Answers} { for _, rr := range rs { if hdr := rr.Hdr(); hdr.Type == dnsmsg.TypeOPT { return hdr } } } return nil }" ∧
    Facts.udp_packCall = "b := mustHaveRespB(m, rc.Response.Msg, dnsmsg.RCodeRefused, false, clientUdpSize)" := by
  decide

end MosVerif.C09
