/-
  C03 — Every query gets exactly one matching response whatever the upstream does (handler level).
  `Router.handle` is a total function of the query, the configuration and the upstream outcomes:
  for every decodable query there is exactly one response value, on every path.  The theorems below fix
  its header, question section and rcode.  That each listener writes this response exactly once, and
  the 6 s deadline, are observed by the listener-level correspondence runs (partial).
-/
import MosVerif.Props.C03Pins
import MosVerif.Lemmas.RouterBasic
import MosVerif.Lemmas.RouterSpecMain
import MosVerif.Lemmas.TranslatedC03
import MosVerif.Model.RouterIO
namespace MosVerif.C03
open MosVerif.Wire MosVerif.Router

/-- the query is one the proxy serves: QR=0, RD=1, opcode QUERY, exactly one question -/
def supported (m : Msg) : Prop :=
  m.hdr.response = false ∧ m.hdr.rd = true ∧ m.hdr.opcode = 0 ∧ m.questions.length = 1

instance (m : Msg) : Decidable (supported m) := by unfold supported; infer_instance

/-- ★ Whatever the rules, the client address and the upstreams do, the response carries the query's
    ID and opcode, QR=1, RA=1 and the query's RD bit. -/
theorem resp_header (env : Env) (m : Msg) :
    let r := (handle env m).resp
    r.hdr.id = m.hdr.id ∧ r.hdr.opcode = m.hdr.opcode ∧ r.hdr.response = true ∧ r.hdr.ra = true ∧
      r.hdr.rd = m.hdr.rd := by
  simp [handle]

/-- ★ Unsupported queries (QR=1, RD=0, opcode ≠ QUERY, question count ≠ 1) get NOTIMP, and no
    upstream is contacted. -/
theorem unsupported_notimp (env : Env) (m : Msg) (h : ¬ supported m) :
    (handle env m).resp.hdr.rcode = rcodeNotImp ∧ (handle env m).forwards = [] := by
  unfold supported at h
  unfold handle
  by_cases h1 : m.hdr.response = true
  · simp [h1, makeEmptyRespM]
  · by_cases h2 : m.hdr.rd = false
    · simp [h2, makeEmptyRespM]
    · by_cases h3 : m.hdr.opcode ≠ 0
      · simp [h3, makeEmptyRespM]
      · have h4 : m.questions.length ≠ 1 := by
          intro h4; apply h
          simp only [ne_eq, Decidable.not_not] at h3
          exact ⟨by simpa using h1, by simpa using h2, h3, h4⟩
        simp [h4, makeEmptyRespM]

/-- ★ The response has at most one question, and it equals the query's first question
    ASCII-case-insensitively (same type and class) — also when the upstream reply is relayed
    (a reply with a different or a second question is not relayed at all). -/
theorem question_ok (env : Env) (m : Msg) :
    let r := (handle env m).resp
    r.questions.length ≤ 1 ∧
    ∀ rq ∈ r.questions, ∃ q0, m.questions.head? = some q0 ∧ lowerName rq.name = lowerName q0.name ∧
      rq.qtype = q0.qtype ∧ rq.qclass = q0.qclass := by
  unfold handle
  by_cases hn : (m.hdr.response || !m.hdr.rd || m.hdr.opcode != 0 || m.questions.length != 1) = true
  · simp only [hn, ↓reduceIte]
    constructor
    · simp [makeEmptyRespM]; omega
    · intro rq hrq
      simp only [makeEmptyRespM] at hrq
      cases hq : m.questions with
      | nil => simp [hq] at hrq
      | cons q0 rest =>
        simp only [hq, List.take_succ_cons, List.take_zero, List.mem_singleton] at hrq
        exact ⟨q0, by simp, by rw [hrq], by rw [hrq], by rw [hrq]⟩
  · simp only [hn, Bool.false_eq_true, ↓reduceIte]
    cases hq : m.questions with
    | nil =>
      simp [makeEmptyRespM, hq]
    | cons q0 rest =>
      simp only
      have hq' := handleReq_questions env { q0 with name := lowerName q0.name }
      -- the OPT fix-up does not touch the question section
      have hquestions : ∀ (x : Msg), (if queryHasOptAny m = true then addOrReplaceOpt x else removeEDNS0 x).questions = x.questions := by
        intro x; split <;> simp [addOrReplaceOpt, removeEDNS0]
      simp only [hquestions]
      rcases hq' with hq' | ⟨rq, hq', hc, ht, hn'⟩
      · rw [hq']
        refine ⟨by simp, ?_⟩
        intro rq hrq
        simp only [List.mem_singleton] at hrq
        subst hrq
        exact ⟨q0, by simp, by simp [lowerName_idem], rfl, rfl⟩
      · rw [hq']
        refine ⟨by simp, ?_⟩
        intro rq' hrq
        simp only [List.mem_singleton] at hrq
        subst hrq
        exact ⟨q0, by simp, by simpa [lowerName_idem] using hn', ht, hc⟩

/-- ★ Upstream failure (error, time-out, undecodable or mismatching reply — everything the transport
    layer reports as a failed exchange, or a reply that does not answer this question) ⇒ SERVFAIL. -/
theorem upstream_failure_servfail (env : Env) (q : Question) (r : Rule) (u : Nat)
    (h : env.rules.find? (fun r => r.applies q.name) = some r) (hr : r.reject = 0) (hu : r.upstream = some u)
    (hf : ∀ resp, env.ups[u]? = some (.reply resp) → isRespOfQuestion resp q = false) :
    (handleReq env q).1.hdr.rcode = rcodeServFail := by
  unfold handleReq
  rw [find_spec, h]
  cases hj : env.rules.findIdx? (fun r => r.applies q.name) with
  | none =>
    rw [List.findIdx?_eq_none_iff] at hj
    have hm := List.mem_of_find?_eq_some h
    have := List.find?_some h
    exact absurd this (by simpa using hj r hm)
  | some j =>
    simp only [hr, Nat.lt_irrefl, ↓reduceIte, hu]
    cases hp : packReq env q with
    | ok wire =>
      simp only
      cases hup : env.ups[u]? with
      | none => simp [makeEmptyResp]
      | some o =>
        cases o with
        | fail => simp [makeEmptyResp]
        | reply resp =>
          simp [hf resp hup, makeEmptyResp]
    | err => simp [makeEmptyResp]
    | panic => simp [makeEmptyResp]

/-- The rcode of a relayed reply is the upstream's (error rcodes are answers, not failures): the reply is
    relayed as it is but for its OPT records (`dnsmsg.RemoveEDNS0`: every OPT of every section goes). -/
theorem relayed_rcode (env : Env) (q : Question) (r : Rule) (u : Nat) (resp : Msg) (wire : Bytes)
    (h : env.rules.find? (fun r => r.applies q.name) = some r) (hr : r.reject = 0) (hu : r.upstream = some u)
    (hp : packReq env q = .ok wire)
    (hup : env.ups[u]? = some (.reply resp)) (hq : isRespOfQuestion resp q = true) :
    (handleReq env q).1 = stripOpt resp := by
  unfold handleReq
  rw [find_spec, h]
  cases hj : env.rules.findIdx? (fun r => r.applies q.name) with
  | none =>
    rw [List.findIdx?_eq_none_iff] at hj
    have hm := List.mem_of_find?_eq_some h
    have := List.find?_some h
    exact absurd this (by simpa using hj r hm)
  | some j => simp [hr, hu, hp, hup, hq]

/-- non-vacuity: an opcode-5 query gets NOTIMP with its own ID -/
example : (handle ⟨false, .none, [], []⟩ ⟨{ emptyHdr with id := 77, opcode := 5, rd := true }, [⟨[1, 97], 1, 1⟩], [], [], []⟩).resp.hdr
    = { emptyHdr with id := 77, response := true, opcode := 5, rd := true, ra := true, rcode := 4 } := by decide

/-! ### The model meets the executable specification

  `RouterIO.spec` is the judgement of C03 + C10 + C12 that the harness applies to what the Go code answered.
  The theorems below apply the same function to what the MODEL answers and prove the verdict is "ok" on every
  path (NOTIMP, no rule, reject, no action, forward with failure / mismatching reply / relayed reply), for every
  rule list (domain sets shared or not, reverse), every upstream behaviour, ECS on or off and every client
  address.  Proof: Lemmas/RouterSpecReq.lean (the forwarded bytes decode back to `reqMsg`, through the C02 round
  trip) and Lemmas/RouterSpecMain.lean (`spec` cut at its joints, one lemma per path).

  Hypotheses — both are needed (counterexamples below), both are decidable (`specHyps`):
   * the query's questions are well formed (`questionWF`: scannable name of ≤ 254 octets, 16-bit type and class)
     — true for every query the decoder accepts (`C02.unpackMsg_wf`); without it `packReq` fails or re-decodes to
     another question.  Nothing else of `msgWF m` is used (no range condition on the header, no condition on
     the query's records);
   * reject codes fit the 4-bit RCODE field: the model answers `reject` itself, the specification expects what
     survives the wire header, `reject % 16` (start-up validation refuses reject codes outside 0..15).
  There is NO hypothesis on the upstream replies any more: `dnsmsg.RemoveEDNS0` (`stripOpt`) removes every OPT
  record of every section of a relayed reply, so whatever the upstream sends, only the proxy's own OPT (or none)
  reaches the client — and an OPT anywhere in the query counts as "the query contained one". -/

/-- what `spec` says about the model's own answer -/
def judged (env : Env) (m : Msg) : String :=
  RouterIO.spec env m ⟨(handle env m).resp, (handle env m).forwards⟩

/-- ★★ `model_meets_spec`: for every environment (any upstream replies whatsoever) and every query — questions
    well formed, reject codes < 16 — the executable specification judges the model's answer and its upstream
    traffic "ok". -/
theorem model_meets_spec (env : Env) (m : Msg)
    (hq : ∀ q ∈ m.questions, questionWF q = true)
    (hrej : ∀ ru ∈ env.rules, ru.reject < 16) :
    RouterIO.spec env m ⟨(handle env m).resp, (handle env m).forwards⟩ = "ok" :=
  spec_model env m hq hrej

/-- the same for a query the decoder accepted (`msgWF`, see `C02.unpackMsg_wf`) -/
theorem model_meets_spec_wf (env : Env) (m : Msg) (hm : msgWF m = true)
    (hrej : ∀ ru ∈ env.rules, ru.reject < 16) :
    judged env m = "ok" :=
  spec_model env m (msgWF_parts hm).2.1 hrej

/-- ★ Unsupported queries need no hypothesis at all. -/
theorem model_meets_spec_unsupported (env : Env) (m : Msg) (h : ¬ supported m) : judged env m = "ok" := by
  apply spec_model_notImpl
  cases hn : notImpl m with
  | true => rfl
  | false =>
    obtain ⟨h1, h2, h3, q0, h4⟩ := notImpl_false m hn
    exact absurd ⟨h1, h2, h3, by rw [h4]; rfl⟩ h

/-- ★ The sharpest form: each hypothesis only for the path the query really takes — `ru` is the deciding
    (first applicable) rule; the question must be well formed only if `ru` forwards. -/
theorem model_meets_spec_path (env : Env) (m : Msg) (q0 : Question) (hs : supported m) (hq : m.questions = [q0])
    (hwf : ∀ ru u, env.rules.find? (fun r => r.applies (lowerName q0.name)) = some ru → ru.reject = 0 →
      ru.upstream = some u → questionWF q0 = true)
    (hrej : ∀ ru, env.rules.find? (fun r => r.applies (lowerName q0.name)) = some ru → ru.reject < 16) :
    judged env m = "ok" := by
  refine spec_model_supported env m q0 ?_ hq hwf hrej
  obtain ⟨h1, h2, h3, h4⟩ := hs
  simp [notImpl, h1, h2, h3, h4]

/-- the two hypotheses of `model_meets_spec` as one decidable check -/
def specHyps (env : Env) (m : Msg) : Bool :=
  m.questions.all questionWF && env.rules.all (fun ru => decide (ru.reject < 16))

theorem model_meets_spec_dec (env : Env) (m : Msg) (h : specHyps env m = true) : judged env m = "ok" := by
  simp only [specHyps, Bool.and_eq_true, List.all_eq_true, decide_eq_true_eq] at h
  exact spec_model env m h.1 h.2

/-- ★ Key sub-lemma: the query bytes `packReq` produces for a well-formed question always exist and decode
    back to exactly `reqMsg env q` — RD set, that one question, no answer/authority records and the proxy's own
    OPT (UDP size 1200) whose data is the expected ECS option (`wantEcs`) or empty. -/
theorem packReq_roundtrip (env : Env) (q : Question) (hq : questionWF q = true) :
    ∃ wire, packReq env q = .ok wire ∧ unpackMsg wire = .ok (reqMsg env q) ∧
      reqMsg env q = ⟨{ emptyHdr with rd := true }, [q], [], [], [⟨[], typeOPT, 1200, 0, .raw (RouterIO.wantEcs env)⟩]⟩ := by
  obtain ⟨wire, h1, h2⟩ := packReq_decodes env q hq
  exact ⟨wire, h1, h2, reqMsg_eq env q⟩

/-- lower-casing a well-formed name gives a well-formed name (length octets ≤ 63 are not letters) -/
theorem lowerName_wf (n : Name) (h : nameWF n = true) : nameWF (lowerName n) = true := nameWF_lowerName n h

/-- ★ `prefetch_forward_ok`: the refresh path (`runPrefetchFw`) — whatever `packReq` sends for the
    (lower-cased, well-formed) question passes the C10/C12 judgement of a forwarded query. -/
theorem prefetch_forward_ok (env : Env) (q : Question) (wire : Bytes) (hq : questionWF q = true)
    (h : packReq env q = .ok wire) : RouterIO.checkForwarded env q wire = "ok" :=
  checkForwarded_packReq env q hq wire h

/-- … in the form `runPrefetchFw` uses it: the model side never answers "no refresh query" for a well-formed
    question, and the query it predicts is judged ok. -/
theorem prefetch_forward_ok' (env : Env) (q0 : Question) (hq : questionWF q0 = true) :
    ∃ wire, packReq env { q0 with name := lowerName q0.name } = .ok wire ∧
      RouterIO.checkForwarded env { q0 with name := lowerName q0.name } wire = "ok" := by
  obtain ⟨wire, h1, _⟩ := packReq_decodes env ⟨lowerName q0.name, q0.qtype, q0.qclass⟩ (questionWF_lower q0 hq)
  exact ⟨wire, h1, checkForwarded_packReq env _ (questionWF_lower q0 hq) wire h1⟩

/-! #### non-vacuity and necessity of the hypotheses -/

/-- `www.Example.com` -/
def exName : Name := [3, 119, 119, 119, 7, 69, 120, 97, 109, 112, 108, 101, 3, 99, 111, 109]
/-- a query: RD, AD, one question (mixed case), and the given authority and additional sections -/
def exQueryWith (name : Name) (auth adds : List Resource) : Msg :=
  ⟨{ emptyHdr with id := 0xBEEF, rd := true, ad := true }, [⟨name, 28, 1⟩], [], auth, adds⟩
/-- the client's OPT: DO bit, 4096-octet buffer, a cookie option -/
def exClientOpt : Resource := ⟨[], 41, 4096, 32768, .raw [0, 10, 0, 2, 1, 2]⟩
/-- the usual query: its OPT, plus a non-OPT record, in the additional section -/
def exQuery (name : Name) : Msg := exQueryWith name [] [exClientOpt, ⟨[1, 120], 16, 1, 5, .raw [1, 65]⟩]
def exOpt (size : Nat) : Resource := ⟨[], 41, size, 0, .raw []⟩
def exTxt : Resource := ⟨[1, 120], 16, 1, 5, .raw []⟩
def exSoa : Resource := ⟨[3, 99, 111, 109], 6, 1, 60, .soa [1, 97] [1, 98] 1 2 3 4 5⟩
/-- an upstream reply (NXDOMAIN) to `exQuery` with the given answer, authority and additional sections -/
def exReplyWith (ans auth adds : List Resource) : Msg :=
  ⟨{ emptyHdr with id := 7, response := true, rd := true, ra := true, rcode := 3 },
    [⟨[3, 119, 119, 119, 7, 101, 120, 97, 109, 112, 108, 101, 3, 99, 111, 109], 28, 1⟩], ans, auth, adds⟩
/-- a shared domain set (`org`, `example.net`), a reverse rule, a reject rule, ECS on, an IPv4-mapped client -/
def exEnvWith (reject : Nat) (reply : Msg) : Env :=
  let set : List Name := [[3, 111, 114, 103], [7, 101, 120, 97, 109, 112, 108, 101, 3, 110, 101, 116]]
  { ecs := true, addr := .v6 [0, 0, 0, 0, 0, 0, 0, 0, 0, 0, 255, 255, 192, 0, 2, 77]
    rules := [⟨some set, false, 0, some 1⟩, ⟨some [[3, 99, 111, 109]], true, reject, none⟩, ⟨some set, true, 0, some 0⟩,
      ⟨none, false, 5, none⟩]
    ups := [.reply reply, .fail] }
def exEnv (reject : Nat) (adds : List Resource) : Env := exEnvWith reject (exReplyWith [] [exSoa] adds)

/-- the hypotheses hold for a non-trivial environment and query: third rule (reverse of a shared set) forwards to
    upstream 0, whose reply (NXDOMAIN, three OPT records and another record) is relayed … -/
example : specHyps (exEnv 3 [exOpt 1232, exTxt, exOpt 512, exOpt 513]) (exQuery exName) = true := by decide
/-- … so the specification accepts what the model does with it -/
example : judged (exEnv 3 [exOpt 1232, exTxt, exOpt 512, exOpt 513]) (exQuery exName) = "ok" :=
  model_meets_spec_dec _ _ (by decide)
/-- … and on that path the model really relays NXDOMAIN with the proxy's own OPT only -/
example : (handle (exEnv 3 [exOpt 1232, exTxt, exOpt 512, exOpt 513]) (exQuery exName)).resp.hdr.rcode = 3 ∧
    (handle (exEnv 3 [exOpt 1232, exTxt, exOpt 512, exOpt 513]) (exQuery exName)).resp.additionals
      = [exTxt, exOpt 1200] := by decide

/-- OPT records in the answer AND authority AND additional sections of the upstream reply, and a query whose only
    OPT record sits in its authority section: the hypotheses hold, the specification accepts the model … -/
def exEnvAll : Env :=
  exEnvWith 3 (exReplyWith [exOpt 1, ⟨[1, 97], 1, 1, 60, .a [192, 0, 2, 1]⟩, exOpt 2] [exOpt 3, exSoa] [exTxt, exOpt 1232, exOpt 4])
def exQueryAuthOpt : Msg := exQueryWith exName [exClientOpt] [exTxt]
example : judged exEnvAll exQueryAuthOpt = "ok" := model_meets_spec_dec _ _ (by decide)
/-- … and the model's answer: every upstream OPT of every section is gone, the other records are relayed in
    order, and because the query had an OPT (if only in the authority section) the proxy's own OPT is attached -/
example : (handle exEnvAll exQueryAuthOpt).resp.answers = [⟨[1, 97], 1, 1, 60, .a [192, 0, 2, 1]⟩] ∧
    (handle exEnvAll exQueryAuthOpt).resp.authorities = [exSoa] ∧
    (handle exEnvAll exQueryAuthOpt).resp.additionals = [exTxt, exOpt 1200] := by decide
/-- the same reply for a query without any OPT: no OPT at all in the answer -/
example : judged exEnvAll (exQueryWith exName [] [exTxt]) = "ok" ∧
    (handle exEnvAll (exQueryWith exName [] [exTxt])).resp.additionals = [exTxt] :=
  ⟨model_meets_spec_dec _ _ (by decide), by decide⟩

/-- necessity 1 — an ill-formed question (a label running past the end of the name, which no decoded query can
    contain): `packReq` fails, nothing is forwarded, the specification objects -/
example : judged { exEnv 3 [] with rules := [⟨none, false, 0, some 0⟩] } (exQuery [9, 119, 119, 119])
    = "viol:C10:not-forwarded" := by decide
/-- necessity 2 — a reject code ≥ 16 (`test.de` hits the second rule): the model answers 19, the wire can only carry 3 -/
example : judged (exEnv 19 []) (exQuery [4, 116, 101, 115, 116, 2, 100, 101]) = "viol:C10:reject-rcode" := by decide

/-- tie by translation (Lemmas/TranslatedC03.lean): `handle` branches on the mechanical translation of the current
    `notImpl := …` statement of `handleReqMsg`; the OPT class floor of `newEDNS0` and the UDP listener's client-size
    computation (OPT class, floor 512, cap `maxUdpPayloadSize`) are the translated statements, for all arguments. -/
theorem int_logic_is_the_translated_source (m : Msg) (size optHdr : Nat) (data : Bytes) (opt : Bool) :
    (m.hdr.response || !m.hdr.rd || m.hdr.opcode != 0 || m.questions.length != 1) =
      Translated.c03_notImpl m.hdr.response m.hdr.rd m.hdr.opcode m.questions.length ∧
    newEDNS0 size data = ⟨[], typeOPT, Translated.c03_edns0Size size, 0, .raw data⟩ ∧
    Listeners.udpClientSize opt size = Translated.c03_udpClientSize optHdr opt size :=
  ⟨notImpl_translated m, newEDNS0_translated size data, udpClientSize_translated optHdr opt size⟩

/-- tie (pins; the NOTIMP predicate is tied by translation, `handle_translated`): the five header assignments, the
    request deadline (6 s), the deferred "always a response" fallback, the single-question copy and the upstream
    question check. -/
theorem pins :
    Facts.hdrfix_id = "rc.Response.Msg.Header.ID = m.Header.ID" ∧
    Facts.hdrfix_qr = "rc.Response.Msg.Header.Response = true" ∧
    Facts.hdrfix_opcode = "rc.Response.Msg.Header.OpCode = m.Header.OpCode" ∧
    Facts.hdrfix_ra = "rc.Response.Msg.Header.RecursionAvailable = true" ∧
    Facts.hdrfix_rd = "rc.Response.Msg.Header.RecursionDesired = m.Header.RecursionDesired" ∧
    Facts.req_timeout_s = 6 ∧
    Facts.deferred_resp = "rc.Response.Msg == nil" ∧
    Facts.deferred_resp_stmt = "rc.Response.Msg = makeEmptyRespM(m, dnsmsg.RCodeServerFailure)" ∧
    Facts.fwd_question_check = "!isRespOfQuestion(resp, q)" ∧
    Facts.emptyresp_one_question = 1 := by decide

end MosVerif.C03
