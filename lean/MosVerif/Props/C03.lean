/-
  C03 — Every query gets exactly one matching response whatever the upstream does (handler level).
  `Router.handle` is a total function of the query, the configuration and the upstream outcomes:
  for every decodable query there is exactly one response value, on every path.  The theorems below fix
  its header, question section and rcode.  That each listener writes this response exactly once, and
  the 6 s deadline, are observed by the listener-level correspondence runs (partial).
-/
import MosVerif.Lemmas.RouterBasic
import MosVerif.Model.RouterIO
namespace MosVerif.C03
open MosVerif.Wire MosVerif.Router

/-- the query is one the proxy serves: QR=0, RD=1, opcode QUERY, exactly one question -/
def supported (m : Msg) : Prop :=
  m.hdr.response = false ∧ m.hdr.rd = true ∧ m.hdr.opcode = 0 ∧ m.questions.length = 1

instance (m : Msg) : Decidable (supported m) := by unfold supported; infer_instance

/-- ★ Whatever the rules, the client address and the upstreams do, the response carries the query's
    ID and opcode, QR=1, RA=1 and the query's RD bit. -/
theorem resp_header (env : Env) (m : Msg) :
    let r := (handle env m).resp
    r.hdr.id = m.hdr.id ∧ r.hdr.opcode = m.hdr.opcode ∧ r.hdr.response = true ∧ r.hdr.ra = true ∧
      r.hdr.rd = m.hdr.rd := by
  simp [handle]

/-- ★ Unsupported queries (QR=1, RD=0, opcode ≠ QUERY, question count ≠ 1) get NOTIMP, and no
    upstream is contacted. -/
theorem unsupported_notimp (env : Env) (m : Msg) (h : ¬ supported m) :
    (handle env m).resp.hdr.rcode = rcodeNotImp ∧ (handle env m).forwards = [] := by
  unfold supported at h
  unfold handle
  by_cases h1 : m.hdr.response = true
  · simp [h1, makeEmptyRespM]
  · by_cases h2 : m.hdr.rd = false
    · simp [h2, makeEmptyRespM]
    · by_cases h3 : m.hdr.opcode ≠ 0
      · simp [h3, makeEmptyRespM]
      · have h4 : m.questions.length ≠ 1 := by
          intro h4; apply h
          simp only [ne_eq, Decidable.not_not] at h3
          exact ⟨by simpa using h1, by simpa using h2, h3, h4⟩
        simp [h4, makeEmptyRespM]

/-- ★ The response has at most one question, and it equals the query's first question
    ASCII-case-insensitively (same type and class) — also when the upstream reply is relayed
    (a reply with a different or a second question is not relayed at all). -/
theorem question_ok (env : Env) (m : Msg) :
    let r := (handle env m).resp
    r.questions.length ≤ 1 ∧
    ∀ rq ∈ r.questions, ∃ q0, m.questions.head? = some q0 ∧ lowerName rq.name = lowerName q0.name ∧
      rq.qtype = q0.qtype ∧ rq.qclass = q0.qclass := by
  unfold handle
  by_cases hn : (m.hdr.response || !m.hdr.rd || m.hdr.opcode != 0 || m.questions.length != 1) = true
  · simp only [hn, ↓reduceIte]
    constructor
    · simp [makeEmptyRespM]; omega
    · intro rq hrq
      simp only [makeEmptyRespM] at hrq
      cases hq : m.questions with
      | nil => simp [hq] at hrq
      | cons q0 rest =>
        simp only [hq, List.take_succ_cons, List.take_zero, List.mem_singleton] at hrq
        exact ⟨q0, by simp, by rw [hrq], by rw [hrq], by rw [hrq]⟩
  · simp only [hn, Bool.false_eq_true, ↓reduceIte]
    cases hq : m.questions with
    | nil =>
      simp [makeEmptyRespM, hq]
    | cons q0 rest =>
      simp only
      have hq' := handleReq_questions env { q0 with name := lowerName q0.name }
      -- the OPT fix-up does not touch the question section
      have hquestions : ∀ (x : Msg), (if (m.additionals.any fun r => r.rtype == typeOPT) = true then addOrReplaceOpt x else removeEDNS0 x).questions = x.questions := by
        intro x; split <;> simp [addOrReplaceOpt, removeEDNS0]
      simp only [hquestions]
      rcases hq' with hq' | ⟨rq, hq', hc, ht, hn'⟩
      · rw [hq']
        refine ⟨by simp, ?_⟩
        intro rq hrq
        simp only [List.mem_singleton] at hrq
        subst hrq
        exact ⟨q0, by simp, by simp [lowerName_idem], rfl, rfl⟩
      · rw [hq']
        refine ⟨by simp, ?_⟩
        intro rq' hrq
        simp only [List.mem_singleton] at hrq
        subst hrq
        exact ⟨q0, by simp, by simpa [lowerName_idem] using hn', ht, hc⟩

/-- ★ Upstream failure (error, time-out, undecodable or mismatching reply — everything the transport
    layer reports as a failed exchange, or a reply that does not answer this question) ⇒ SERVFAIL. -/
theorem upstream_failure_servfail (env : Env) (q : Question) (r : Rule) (u : Nat)
    (h : env.rules.find? (fun r => r.applies q.name) = some r) (hr : r.reject = 0) (hu : r.upstream = some u)
    (hf : ∀ resp, env.ups[u]? = some (.reply resp) → isRespOfQuestion resp q = false) :
    (handleReq env q).1.hdr.rcode = rcodeServFail := by
  unfold handleReq
  rw [find_spec, h]
  cases hj : env.rules.findIdx? (fun r => r.applies q.name) with
  | none =>
    rw [List.findIdx?_eq_none_iff] at hj
    have hm := List.mem_of_find?_eq_some h
    have := List.find?_some h
    exact absurd this (by simpa using hj r hm)
  | some j =>
    simp only [hr, Nat.lt_irrefl, ↓reduceIte, hu]
    cases hp : packReq env q with
    | ok wire =>
      simp only
      cases hup : env.ups[u]? with
      | none => simp [makeEmptyResp]
      | some o =>
        cases o with
        | fail => simp [makeEmptyResp]
        | reply resp =>
          simp [hf resp hup, makeEmptyResp]
    | err => simp [makeEmptyResp]
    | panic => simp [makeEmptyResp]

/-- The rcode of a relayed reply is the upstream's (error rcodes are answers, not failures). -/
theorem relayed_rcode (env : Env) (q : Question) (r : Rule) (u : Nat) (resp : Msg) (wire : Bytes)
    (h : env.rules.find? (fun r => r.applies q.name) = some r) (hr : r.reject = 0) (hu : r.upstream = some u)
    (hp : packReq env q = .ok wire)
    (hup : env.ups[u]? = some (.reply resp)) (hq : isRespOfQuestion resp q = true) :
    (handleReq env q).1 = removeEDNS0 resp := by
  unfold handleReq
  rw [find_spec, h]
  cases hj : env.rules.findIdx? (fun r => r.applies q.name) with
  | none =>
    rw [List.findIdx?_eq_none_iff] at hj
    have hm := List.mem_of_find?_eq_some h
    have := List.find?_some h
    exact absurd this (by simpa using hj r hm)
  | some j => simp [hr, hu, hp, hup, hq]

/-- non-vacuity: an opcode-5 query gets NOTIMP with its own ID -/
example : (handle ⟨false, .none, [], []⟩ ⟨⟨77, false, 5, false, false, true, false, false, false, 0⟩, [⟨[1, 97], 1, 1⟩], [], [], []⟩).resp.hdr
    = ⟨77, true, 5, false, false, true, true, false, false, 4⟩ := by decide

/-- tie: the NOTIMP predicate, the five header assignments, the request deadline (6 s), the deferred
    "always a response" fallback, the single-question copy and the upstream question check. -/
theorem pins :
    Facts.notimp_pred = "notImpl := hdr.Response || !hdr.RecursionDesired || hdr.OpCode != dnsmsg.OpCode(0) || len(m.Questions) != 1" ∧
    Facts.hdrfix_id = "rc.Response.Msg.Header.ID = m.Header.ID" ∧
    Facts.hdrfix_qr = "rc.Response.Msg.Header.Response = true" ∧
    Facts.hdrfix_opcode = "rc.Response.Msg.Header.OpCode = m.Header.OpCode" ∧
    Facts.hdrfix_ra = "rc.Response.Msg.Header.RecursionAvailable = true" ∧
    Facts.hdrfix_rd = "rc.Response.Msg.Header.RecursionDesired = m.Header.RecursionDesired" ∧
    Facts.req_timeout_s = 6 ∧
    Facts.deferred_resp = "rc.Response.Msg == nil" ∧
    Facts.deferred_resp_stmt = "rc.Response.Msg = makeEmptyRespM(m, dnsmsg.RCodeServerFailure)" ∧
    Facts.fwd_question_check = "!isRespOfQuestion(resp, q)" ∧
    Facts.emptyresp_one_question = 1 := by decide

end MosVerif.C03
