/-
  C01, upstream side — "no byte sequence arriving … from an upstream as a reply makes the process panic, read
  out of bounds, loop without bound or stop serving: input that cannot be decoded is rejected (… the exchange
  fails) and later valid queries are still answered".

  Model: Model/UpReply.lean (the read paths of every upstream transport, on top of the decoder model of
  Model/Wire.lean). The theorems quantify over all octet strings / all scripts / all interleavings of replies with
  exchanges joining and leaving; the tie to the code is `pins` below plus the `upreply` component (the real
  upstreams built by `upstream.NewUpstream` against scripted servers).
-/
import MosVerif.Lemmas.UpReplyLemmas
import MosVerif.Lemmas.TranslatedC01Up
namespace MosVerif.C01Up
open MosVerif MosVerif.Wire MosVerif.UpReply

/-! ### framing: `ReadMsgFromTCP` -/

/-- ★ Reading a frame never panics and has one of three outcomes, for every octet string — whatever the
    length prefix claims (0, 65535, more or less than what follows). -/
theorem readMsgFromTCP_total (s : Bytes) :
    readMsgFromTCP s = .short ∨ (∃ rest, readMsgFromTCP s = .bad rest) ∨ ∃ m rest, readMsgFromTCP s = .msg m rest := by
  cases h : readMsgFromTCP s with
  | short => exact Or.inl rfl
  | bad r => exact Or.inr (Or.inl ⟨r, rfl⟩)
  | msg m r => exact Or.inr (Or.inr ⟨m, r, rfl⟩)
  | panic => exact absurd h (readMsgFromTCP_ne_panic s)

/-- ★ A message is returned only when all announced octets are there; it is decoded from exactly these octets
    (nothing behind them is read) and the rest of the stream is left untouched. -/
theorem readMsgFromTCP_exact {s : Bytes} {m : Msg} {rest : Bytes} (h : readMsgFromTCP s = .msg m rest) :
    ∃ a b body, s = a :: b :: (body ++ rest) ∧ body.length = be16 a b ∧ unpackMsg body = .ok m :=
  readMsgFromTCP_msg h

/-- A length prefix that announces more than what arrives never yields a message (the exchange fails). -/
theorem lying_length_fails (a b : UInt8) (body : Bytes) (h : body.length < be16 a b) :
    readMsgFromTCP (a :: b :: body) = .short := by
  simp [readMsgFromTCP, h]

/-! ### datagrams: `ReadMsgFromUDP` -/

/-- ★ Reading a datagram never panics: it yields a message or an error, for every octet string. -/
theorem readMsgFromUDP_total (b : Bytes) :
    (∃ m, readMsgFromUDP b = .msg m) ∨ ∃ n, readMsgFromUDP b = .bad n := by
  cases h : readMsgFromUDP b with
  | msg m => exact Or.inl ⟨m, rfl⟩
  | bad n => exact Or.inr ⟨n, rfl⟩
  | panic => exact absurd h (readMsgFromUDP_ne_panic b)

/-- ★ A message that is not the decoding of the datagram is produced only from a datagram that has the 12
    header octets with TC set; it carries that header's id, TC=1 and no records (so all it can do is send the
    query again over TCP). -/
theorem header_only_message_needs_tc {b : Bytes} {m : Msg} (h : readMsgFromUDP b = .msg m)
    (hn : unpackMsg (b.take udpBuf) ≠ .ok m) :
    ∃ a c f rest, b.take udpBuf = a :: c :: f :: rest ∧ 12 ≤ (b.take udpBuf).length ∧ (f.toNat / 2) % 2 = 1 ∧
      m.hdr.id = be16 a c ∧ m.hdr.truncated = true ∧
      m.questions = [] ∧ m.answers = [] ∧ m.authorities = [] ∧ m.additionals = [] := by
  rcases readMsgFromUDP_msg h with hm | ⟨_, hh⟩
  · exact absurd hm hn
  · obtain ⟨a, c, f, rest, h1, h2, h3, h4, h5, _, h7, h8, h9, h10⟩ := headerOnly_some hh
    exact ⟨a, c, f, rest, h1, h2, h3, h4, h5, h7, h8, h9, h10⟩

/-- A datagram without TC in its header that does not decode yields no message (it is skipped or, if empty,
    ends the connection). -/
theorem undecodable_without_tc_is_dropped (b : Bytes) (hd : unpackMsg (b.take udpBuf) = .err)
    (hh : headerOnly (b.take udpBuf) = none) : ∃ n, readMsgFromUDP b = .bad n := by
  simp [readMsgFromUDP, readMsgFromUDPn, hd, hh]

/-! ### the pipelined read loop -/

/-- ★ The read loop of a pipelined connection (udp, tcp+pipeline, tls+pipeline) makes progress on every reply
    sequence, for every state of the waiters and every interleaving of replies with exchanges registering,
    receiving and leaving: it never blocks and never panics; it reads every unit, or stops at the first unit
    that closes the connection. -/
theorem readLoop_progress (isTCP : Bool) (es : List Ev) (q : Queue) :
    (runLoop false isTCP q 0 es).2 = .idle (unitsOf es) ∨
    ∃ k, k < unitsOf es ∧ (runLoop false isTCP q 0 es).2 = .closed k := by
  rcases runLoop_progress isTCP es q 0 with h | ⟨k, _, h2, h3⟩
  · left; simpa using h
  · right; exact ⟨k, by omega, h3⟩

/-- ★ Replies nobody waits for (waiter gone, duplicate into a full channel, id never asked) are dropped and
    the loop goes on: if no unit closes the connection, all of them are read. -/
theorem readLoop_reads_every_reply (isTCP : Bool) (es : List Ev) (q : Queue)
    (hno : ∀ b, Ev.unit b ∈ es → ¬ closes isTCP b) :
    (runLoop false isTCP q 0 es).2 = .idle (unitsOf es) := by
  simpa using runLoop_reads_all isTCP es hno q 0

/-- the hand-over itself: no queue state makes it block -/
theorem handover_never_blocks (q : Queue) (m : Msg) : (deliver false q m).2 ≠ .blocked :=
  deliver_nonblocking q m

/-- A reply that reaches the waiter of id `id` was decoded from a unit the server sent and carries `id`. -/
theorem delivered_was_sent (isTCP : Bool) (q0 : Queue) (hq0 : ∀ e ∈ q0, e.2.buf = []) (us : List Bytes)
    (id : Nat) (m : Msg) (h : delivered (runLoop false isTCP q0 0 (us.map .unit)).1 id = some m) :
    m.hdr.id = id ∧ ∃ b ∈ us, unitStep isTCP b = .msg m := by
  have hg := runLoop_good false isTCP (· ∈ us) (us.map .unit) q0 0
    (by intro b hb; simpa using hb)
    (by intro e he m hm; rw [hq0 e he] at hm; simp at hm)
  exact delivered_good hg h

/-- a valid reply with id 7 (question `a. IN A`, no records) -/
def dupReply : Bytes := [0,7, 0x81,0x80, 0,1, 0,0, 0,0, 0,0, 1,97, 0, 0,1, 0,1]

macro "up_eval" : tactic => `(tactic|
  simp [runLoop, unitStep, deliver, qget, qset, qdel, dupReply, unpackMsg, sliceFrom, unpackQuestions, unpackResources,
    unpackQuestion, unpackName, nameLoop, hopLimit, nameCap, Bind.bind, Res.bind, be16, u16At, headerOfBits, testBit])

/-- Non-vacuity of the distinction: with a blocking hand-over (`resChan <- r` without `default:`) the same
    reply sent twice wedges the loop when the owner of the id does not receive — the second copy finds the
    channel full. The non-blocking hand-over of the code drops it and goes on. -/
example : (runLoop true true [(7, ⟨[], 1⟩)] 0 [.unit dupReply, .unit dupReply, .leave 7, .unit dupReply]).2 = .blocked 1 := by
  up_eval
example : (runLoop false true [(7, ⟨[], 1⟩)] 0 [.unit dupReply, .unit dupReply, .leave 7, .unit dupReply]).2 = .idle 3 := by
  up_eval

/-! ### one-at-a-time connections -/

/-- ★ (D33) An exchange on a one-at-a-time connection returns a message only if it carries the id of the
    connection's current query … -/
theorem reuse_returns_own_id {qid : Nat} {s : Bytes} {m : Msg} {rest : Bytes}
    (h : reuseExchange qid s = .ok (m, rest)) : m.hdr.id = qid := by
  unfold reuseExchange at h
  split at h
  · split at h
    · next hid => simp at h; rw [← h.1]; exact hid
    · simp at h
  · simp at h
  · simp at h
  · simp at h

/-- ★ … so a frame left over from an earlier query (any id but the current one) fails the exchange — the
    connection is closed instead of being reused one frame behind. -/
theorem reuse_stale_frame_fails (qid : Nat) (a b : UInt8) (body rest : Bytes) (m : Msg)
    (hl : body.length = be16 a b) (hm : unpackMsg body = .ok m) (hid : m.hdr.id ≠ qid) :
    reuseExchange qid (a :: b :: (body ++ rest)) = .err := by
  have h1 : ¬ body.length + rest.length < be16 a b := by omega
  have h2 : (body ++ rest).take (be16 a b) = body := by rw [← hl]; simp
  simp [reuseExchange, readMsgFromTCP, h1, h2, hm, hid]

/-! ### DoH -/

/-- ★ `DoHTransport.exchange` never panics, whatever status, Content-Length and body the HTTP layer reports. -/
theorem doh_noPanic (status : Nat) (cl : Int) (body : Bytes) (e : Bool) :
    dohExchange false status cl body e ≠ .panic := dohExchange_ne_panic status cl body e

/-- ★ The Content-Length the server announces has no influence on what the transport does … -/
theorem doh_ignores_contentLength (status : Nat) (cl cl' : Int) (body : Bytes) (e : Bool) :
    dohExchange false status cl body e = dohExchange false status cl' body e := by
  simp [dohExchange]

/-- ★ … and octets behind the limit are never looked at: at most `dohLimit` octets reach the decoder. -/
theorem doh_bounded (status : Nat) (cl : Int) (body extra : Bytes) (h : dohLimit ≤ body.length) :
    dohExchange false status cl (body ++ extra) false = dohExchange false status cl body false := by
  have : (body ++ extra).take dohLimit = body.take dohLimit := by
    rw [List.take_append_of_le_length h]
  simp [dohExchange, this]

/-- Non-vacuity of the distinction: pre-sizing the buffer from the announced length would panic. -/
example : dohExchange true 200 (2 ^ 62) [] false = .panic := by decide
example : dohExchange false 200 (2 ^ 62) [] false = .err := by
  simp [dohExchange, dohLimit, unpackMsg, sliceFrom, Bind.bind, Res.bind]

/-! ### the whole prediction -/

theorem stuck_false (isTCP : Bool) (es : List Ev) (q : Queue) : isStuck (runLoop false isTCP q 0 es).2 = false := by
  rcases runLoop_progress isTCP es q 0 with h | ⟨k, _, _, h⟩ <;> rw [h] <;> rfl

theorem reuseFirst_ne_panic (s : Bytes) (t : Term) : reuseFirst s t ≠ .panic := by
  unfold reuseFirst reuseExchange
  have := readMsgFromTCP_ne_panic s
  cases h : readMsgFromTCP s with
  | panic => exact absurd h this
  | short => simp
  | bad r => simp
  | msg m r =>
    simp only
    by_cases hid : m.hdr.id = 0
    · simp only [hid, if_true]; split <;> simp
    · simp [hid]

theorem quicFirst_ne_panic (s : Bytes) (t : Term) : quicFirst s t ≠ .panic := by
  unfold quicFirst
  have := readMsgFromTCP_ne_panic s
  cases h : readMsgFromTCP s with
  | panic => exact absurd h this
  | short => simp
  | bad r => simp
  | msg m r => simp only; split <;> simp

theorem dohFirst_ne_panic (tr : String) (toks : List Tok) : dohFirst tr toks ≠ .panic := by
  simp only [dohFirst]
  split
  · simp
  · split
    · simp
    · split
      · simp
      · simp
      · next b _ =>
        have := dohExchange_ne_panic 200 (-1) b false
        split
        · simp
        · simp
        · next h => exact absurd h this
      · next b _ =>
        have := dohExchange_ne_panic 200 (-1) b true
        split
        · simp
        · simp
        · next h => exact absurd h this

/-- ★ For every script — every octet string written on any transport at any unit level — the model's
    transport step terminates (the definitions are total) and does not panic: it delivers a decoded message or
    fails the exchange. -/
theorem upstream_reply_noPanic (c : Case) : predictFirst c ≠ .panic := by
  unfold predictFirst
  split
  · simp [wstallFirst, stuck_false]
    split
    · split <;> simp
    · split <;> simp
  · split
    · exact reuseFirst_ne_panic _ _
    · split
      · simp [pipeFirst, stuck_false]
        split
        · split <;> simp
        · simp
      · split
        · exact quicFirst_ne_panic _ _
        · split
          · simp [udpFirst, stuck_false]
            split
            · simp
            · split
              · simp
              · split
                · split
                  · simp
                  · exact reuseFirst_ne_panic _ _
                · simp
          · exact dohFirst_ne_panic _ _

theorem unitStep_tcp_msg {b : Bytes} {m : Msg} (h : unitStep true b = .msg m) : unpackMsg b = .ok m := by
  unfold unitStep at h
  simp only [if_true] at h
  split at h
  · next m' hm => simp at h; rw [hm, h]
  · simp at h
  · simp at h

theorem unitStep_udp_msg {b : Bytes} {m : Msg} (h : unitStep false b = .msg m) : readMsgFromUDP b = .msg m := by
  unfold unitStep at h
  simp only [Bool.false_eq_true, if_false] at h
  split at h
  · next m' hm => simp at h; rw [hm, h]
  · split at h <;> simp at h
  · simp at h

theorem any_decodes {us : List Bytes} {b : Bytes} {m : Msg} {i : Nat} (hb : b ∈ us) (hm : unpackMsg b = .ok m)
    (hi : m.hdr.id = i) : us.any (decodesWithId · (some i)) = true := by
  rw [List.any_eq_true]
  exact ⟨b, hb, by simp [decodesWithId, hm, hi]⟩

theorem reuse_justified {s : Bytes} {t : Term} (h : reuseFirst s t = .resp ∨ reuseFirst s t = .any) :
    (frames s).1.any (decodesWithId · (some 0)) = true := by
  have hx : ∃ m rest, reuseExchange 0 s = .ok (m, rest) := by
    unfold reuseFirst at h
    cases he : reuseExchange 0 s with
    | ok p => exact ⟨p.1, p.2, rfl⟩
    | err => simp [he] at h
    | panic => simp [he] at h
  obtain ⟨m, rest, hx⟩ := hx
  have hid := reuse_returns_own_id hx
  unfold reuseExchange at hx
  cases hrd : readMsgFromTCP s with
  | msg m' r' =>
    simp only [hrd] at hx
    split at hx
    · simp only [Res.ok.injEq, Prod.mk.injEq] at hx
      obtain ⟨f, hf, hm⟩ := readMsgFromTCP_msg_frames hrd
      exact any_decodes hf hm (by rw [hx.1]; exact hid)
    · simp at hx
  | bad r => simp [hrd] at hx
  | short => simp [hrd] at hx
  | panic => simp [hrd] at hx

theorem pipe_justified {s : Bytes} {t : Term} (h : pipeFirst s t = .resp ∨ pipeFirst s t = .any) :
    (frames s).1.any (decodesWithId · (some 0)) = true := by
  simp only [pipeFirst, stuck_false, Bool.false_eq_true, if_false] at h
  cases hd : delivered (runLoop false true [(0, ⟨[], 1⟩)] 0 ((frames s).1.map .unit)).1 0 with
  | none => simp [hd] at h
  | some m =>
    obtain ⟨hid, b, hb, hu⟩ := delivered_was_sent true [(0, ⟨[], 1⟩)] (by simp) _ 0 m hd
    exact any_decodes hb (unitStep_tcp_msg hu) hid

theorem quic_justified {s : Bytes} {t : Term} (h : quicFirst s t = .resp ∨ quicFirst s t = .any) :
    (frames s).1.any (decodesWithId · none) = true := by
  cases hrd : readMsgFromTCP s with
  | msg m' r' =>
    obtain ⟨f, hf, hm⟩ := readMsgFromTCP_msg_frames hrd
    rw [List.any_eq_true]
    exact ⟨f, hf, by simp [decodesWithId, hm]⟩
  | bad r => simp [quicFirst, hrd] at h
  | short => simp [quicFirst, hrd] at h
  | panic => simp [quicFirst, hrd] at h

theorem udp_justified {ds : List Bytes} {tl : List Tok} (h : udpFirst ds tl = .resp ∨ udpFirst ds tl = .any) :
    ds.any (fun d => decodesWithId (d.take udpBuf) (some 0) || tcHeaderWithId (d.take udpBuf) 0) = true := by
  simp only [udpFirst, stuck_false, Bool.false_eq_true, if_false] at h
  cases hd : delivered (runLoop false false [(0, ⟨[], 1⟩)] 0 (ds.map .unit)).1 0 with
  | none => simp [hd] at h
  | some m =>
    obtain ⟨hid, b, hb, hus⟩ := delivered_was_sent false [(0, ⟨[], 1⟩)] (by simp) _ 0 m hd
    rw [List.any_eq_true]
    refine ⟨b, hb, ?_⟩
    rcases readMsgFromUDP_msg (unitStep_udp_msg hus) with hm | ⟨_, hh⟩
    · simp [decodesWithId, hm, hid]
    · simp [tcHeaderWithId, hh, hid]

theorem clientView_body {tr : String} {h : Http} {t : Term} {b : Bytes}
    (hv : clientView tr h t = .body b ∨ clientView tr h t = .cut b) :
    b = h.body ∨ ∃ s n, h.cl = some s ∧ clValue s = some n ∧ b = h.body.take n := by
  unfold clientView at hv
  split at hv
  · split at hv <;> simp at hv <;> exact Or.inl hv.symm
  · split at hv
    · next s hs =>
      split at hv
      · split at hv
        · simp at hv
        · split at hv <;> simp at hv <;> exact Or.inl hv.symm
      · next n hn =>
        split at hv
        · split at hv <;> simp at hv <;> exact Or.inl hv.symm
        · split at hv
          · split at hv
            · split at hv <;> simp at hv
            · split at hv
              · simp at hv
              · simp at hv; exact Or.inr ⟨s, n, hs, hn, hv.symm⟩
          · split at hv
            · simp at hv
            · simp at hv; exact Or.inl hv.symm
    · split at hv
      · simp at hv; exact Or.inl hv.symm
      · split at hv <;> simp at hv <;> exact Or.inl hv.symm

theorem dohExchange_ok_decodes {b : Bytes} {e : Bool} {m : Msg} (h : dohExchange false 200 (-1) b e = .ok m) :
    unpackMsg (b.take dohLimit) = .ok m := by
  unfold dohExchange at h
  simp only [ne_eq, not_true_eq_false, if_false, Bool.false_eq_true, false_and] at h
  split at h
  · simp at h
  · exact h

theorem doh_justified {tr : String} {toks : List Tok} (h : dohFirst tr toks = .resp) :
    ((httpOf toks ⟨200, none, false, [], false⟩).raw ||
      (httpOf toks ⟨200, none, false, [], false⟩).st == 200 &&
      (decodesWithId ((httpOf toks ⟨200, none, false, [], false⟩).body.take dohLimit) none ||
       (match (httpOf toks ⟨200, none, false, [], false⟩).cl.bind clValue with
        | some n => decodesWithId (((httpOf toks ⟨200, none, false, [], false⟩).body.take n).take dohLimit) none
        | none => false))) = true := by
  simp only [dohFirst] at h
  generalize httpOf toks ⟨200, none, false, [], false⟩ = hh at h ⊢
  split at h
  · simp at h
  · split at h
    · simp at h
    · next hst =>
      have hst' : hh.st = 200 := by simpa using hst
      have key : ∀ b e, (clientView tr hh (termOf toks) = .body b ∨ clientView tr hh (termOf toks) = .cut b) →
          (∃ m, dohExchange false 200 (-1) b e = .ok m) →
          (hh.raw || hh.st == 200 && (decodesWithId (hh.body.take dohLimit) none ||
            (match hh.cl.bind clValue with
             | some n => decodesWithId ((hh.body.take n).take dohLimit) none
             | none => false))) = true := by
        intro b e hv ⟨m, hm⟩
        have hd := dohExchange_ok_decodes hm
        rcases clientView_body hv with rfl | ⟨s, n, hs, hn, rfl⟩
        · simp [hst', decodesWithId, hd]
        · simp [hst', decodesWithId, hd, hs, hn]
      split at h
      · simp at h
      · simp at h
      · next b hv =>
        cases hm : dohExchange false 200 (-1) b false with
        | ok m => exact key b false (Or.inl hv) ⟨m, hm⟩
        | err => simp [hm] at h
        | panic => simp [hm] at h
      · next b hv =>
        cases hm : dohExchange false 200 (-1) b true with
        | ok m => exact key b true (Or.inr hv) ⟨m, hm⟩
        | err => simp [hm] at h
        | panic => simp [hm] at h

/-- the transports whose units are frames or datagrams -/
def framed (c : Case) : Bool := c.wstall || isReuse c.tr || isPipe c.tr || c.tr == "quic" || c.tr == "udp"

/-- ★ The model returns a reply for the first exchange only if the server sent a unit that decodes (and
    carries the query's wire id where replies are matched by id): undecodable input is never turned into a reply.
    (Also when the prediction is left open — `any` — on the stream and datagram transports.) -/
theorem returned_reply_was_sent (c : Case) (h : predictFirst c = .resp ∨ (predictFirst c = .any ∧ framed c = true)) :
    justified c = true := by
  unfold predictFirst at h
  unfold justified
  by_cases hw : c.wstall = true
  · simp [hw]
  · simp only [hw, Bool.false_eq_true, if_false] at h ⊢
    by_cases hre : isReuse c.tr = true
    · simp only [hre, if_true, true_or] at h ⊢
      exact reuse_justified (h.imp id (·.1))
    · simp only [hre, Bool.false_eq_true, if_false, false_or] at h ⊢
      by_cases hp : isPipe c.tr = true
      · simp only [hp, if_true] at h ⊢
        exact pipe_justified (h.imp id (·.1))
      · simp only [hp, Bool.false_eq_true, if_false] at h ⊢
        by_cases hq : (c.tr == "quic") = true
        · simp only [hq, if_true] at h ⊢
          exact quic_justified (h.imp id (·.1))
        · simp only [hq, Bool.false_eq_true, if_false] at h ⊢
          by_cases hu : (c.tr == "udp") = true
          · simp only [hu, if_true] at h ⊢
            exact udp_justified (h.imp id (·.1))
          · simp only [hu, Bool.false_eq_true, if_false] at h ⊢
            have hf : framed c = false := by simp [framed, hw, hre, hp, hq, hu]
            rcases h with h | ⟨_, h2⟩
            · rw [Bool.or_eq_true]; right; exact doh_justified h
            · rw [hf] at h2; exact absurd h2 (by simp)

/-- the read buffer of the code holds any UDP datagram (8cbdefd) -/
theorem udpBuf_holds_any_datagram : udpBuf = maxDatagram := by decide

/-- ★ The only datagram the server sent yields a message for the query's id (decoded whole — up to the size
    of a UDP datagram — or the TC stand-in, the TCP service being the correct one): the model returns a reply. -/
theorem only_reply_is_returned (c : Case) (h : mustAnswer c = true) : predictFirst c = .resp := by
  unfold mustAnswer at h
  simp only [Bool.and_eq_true, Bool.not_eq_eq_eq_not, Bool.not_true, beq_iff_eq] at h
  obtain ⟨⟨hw, htr⟩, hd⟩ := h
  split at hd
  · next d hds =>
    split at hd
    · next m hm =>
      simp only [Bool.and_eq_true, beq_iff_eq, Bool.or_eq_true, Bool.not_eq_eq_eq_not, Bool.not_true] at hd
      rw [← udpBuf_holds_any_datagram] at hm
      have hu : unitStep false d = .msg m := by simp [unitStep, readMsgFromUDP, hm]
      simp only [predictFirst, hw, Bool.false_eq_true, if_false, htr]
      simp [isReuse, isPipe, udpFirst, hds, runLoop, hu, deliver, isStuck, isClosed, delivered, qget, qset, hd.1]
      intro ht hne
      rcases hd.2 with hf | he
      · rw [ht] at hf; exact absurd hf (by simp)
      · exact absurd (by simpa using he) hne
    · simp at hd
  · simp at hd

/-- The output of the model for a case, `echo` being the observed value where the prediction is left open. -/
def modelOut (c : Case) (echo : String) : Out :=
  ⟨"ok", (match predictFirst c with | .any => echo | f => f.str), "ok"⟩

/-- ★ The model meets the specification on every case: the upstream keeps serving, memory does not follow a
    length field, a reply is returned only if one was sent, and the only reply sent is not dropped. Where the
    prediction is left open the echoed observation must itself be one of the two legal outcomes (and, for DoH,
    be justified). -/
theorem model_meets_spec (c : Case) (echo : String)
    (he : predictFirst c = .any → echo = "err" ∨ (echo = "resp" ∧ (framed c = true ∨ justified c = true))) :
    spec c (modelOut c echo) = true := by
  have hma : predictFirst c ≠ .resp → mustAnswer c = false := by
    intro hp
    cases hm : mustAnswer c with
    | false => rfl
    | true => exact absurd (only_reply_is_returned c hm) hp
  unfold spec modelOut
  cases hp : predictFirst c with
  | panic => exact absurd hp (upstream_reply_noPanic c)
  | err => simp [First.str, hma (by rw [hp]; simp)]
  | resp => simp [First.str, returned_reply_was_sent c (Or.inl hp)]
  | any =>
    rcases he hp with rfl | ⟨rfl, hj⟩
    · simp [hma (by rw [hp]; simp)]
    · rcases hj with hj | hj
      · simp [returned_reply_was_sent c (Or.inr ⟨hp, hj⟩)]
      · simp [hj]

/-- Non-vacuity: a script on which the model predicts a reply, one on which it predicts failure. -/
example : predictFirst ⟨"quic", [.write ([0, 19] ++ dupReply)], [], false⟩ = .resp := by
  simp [predictFirst, isReuse, isPipe, quicFirst, streamOf, termOf, readMsgFromTCP, tcpBodyLen, be16]
  up_eval
example : predictFirst ⟨"tcp", [.write [0xff, 0xff, 1, 2, 3], .close], [], false⟩ = .err := by
  simp [predictFirst, isReuse, reuseFirst, reuseExchange, streamOf, readMsgFromTCP, tcpBodyLen, be16]

/-- tie: the statements of the code the model is written against. The integer / boolean conditions are no longer
    pinned as text: `Lemmas/TranslatedC01Up.lean` proves the model's named definitions equal to their translation
    from the current source (`udpFloor`: the 2048 floor of `ReadMsgFromUDP`; `tcCut`: `err != nil && n >= 12 &&
    b[2]&(1<<1) != 0`; `tcpBodyLen`: `pool.GetBuf(int(length))`; `udpSkips`: `n > 0`; `idMatches`:
    `r.Header.ID != qid`), and `Lemmas/TranslatedCodecMsg.unpackMsg_translated` the decoder they all call. -/
theorem pins :
    Facts.c01up_deliverCase = "case resChan <- r:" ∧
    Facts.c01up_deliverDefault = "default: dnsmsg.ReleaseMsg(r)" ∧
    Facts.c01up_selects = 1 ∧
    Facts.c01up_nilChan = "resChan != nil" ∧
    Facts.c01up_udpBufSize = 65535 ∧
    Facts.c01up_udpTcNew = "m = dnsmsg.NewMsg()" ∧
    Facts.c01up_udpTcId = "m.Header.ID = binary.BigEndian.Uint16(b)" ∧
    Facts.c01up_udpTcResp = "m.Header.Response = b[2]&(1<<7) != 0" ∧
    Facts.c01up_udpTcFlag = "m.Header.Truncated = true" ∧
    Facts.c01up_dohRetryCond = "connErr && (reused.Load() || isQuicConnErr(err) || isHttp3Err(err)) && retry < 3 && ctx.Err() == nil" ∧
    Facts.c01up_loopContinues = 2 ∧
    Facts.c01up_readErrClose = "c.closeWithErr(fmt.Errorf(\"read err, %w\", err))" ∧
    Facts.c01up_tcpReadHdr = "nr, err := io.ReadFull(c, hdrBuf)" ∧
    Facts.c01up_tcpLen = "length := binary.BigEndian.Uint16(hdrBuf)" ∧
    Facts.c01up_tcpReadBody = "nr, err = io.ReadFull(c, msgBuf)" ∧
    Facts.c01up_tcpUnpack = "m, err := dnsmsg.UnpackMsg(msgBuf)" ∧
    Facts.c01up_udpRead = "n, err := c.Read(b)" ∧
    Facts.c01up_udpUnpack = "m, err := dnsmsg.UnpackMsg(b[:n])" ∧
    Facts.c01up_dohStatusCond = "resp.StatusCode != http.StatusOK" ∧
    Facts.c01up_dohRead = "_, err = bb.ReadFrom(io.LimitReader(resp.Body, 65535))" ∧
    Facts.c01up_dohLimit = 65535 ∧
    Facts.c01up_dohBufUses = 2 ∧
    Facts.c01up_dohContentLength = 0 ∧
    Facts.c01up_dohUnpack = "m, err := dnsmsg.UnpackMsg(bb.Bytes())" ∧
    Facts.c01up_reuseRead = "r, _, err := dnsutils.ReadMsgFromTCP(c.c)" ∧
    Facts.c01up_reuseQid = "qid := c.nextQid" ∧
    Facts.c01up_reuseSetQid = "binary.BigEndian.PutUint16(payload[2:], qid)" ∧
    Facts.c01up_quicRead = "r, _, err := dnsutils.ReadMsgFromTCP(stream)" := by decide

end MosVerif.C01Up
