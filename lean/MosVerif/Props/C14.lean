/-
  C14 — Upstream exchanges end by their deadline and survive stale connections.

  Theorems about the retry loops for EVERY oracle (every placement of faults), about the
  connection-scoped cancel of a pipelined connection, and about the complete extracted
  table of wait sites. Helper lemmas: `MosVerif/Lemmas/RetryLoop.lean`.
  What is NOT proved here: actual return times (measured by the harness), and the
  behaviour of library time-outs (net, crypto/tls, net/http, quic-go, connpool).
-/
import MosVerif.Model.Retry
import MosVerif.Lemmas.RetryLoop
import MosVerif.Lemmas.RetryPipelineLink
import MosVerif.Lemmas.TranslatedC14
import MosVerif.Generated.Facts
namespace MosVerif.C14
open MosVerif.Retry

/-! ### the loops as written are the common loop -/

/-- `eff k o` = the attempts as they really happen: the oracle itself, except that the reuse loop's
    last allowed attempt (retry 6) dials without consulting the pool, that the quic loop dials after
    a connection-level failure, and that for DoH "pooled failure" stands for a failure that is retried
    (a connection error on a reused connection or a QUIC connection error) and "fresh failure" for
    one that is reported (`dohView`) -/
theorem exchange_eq_loop (k : Kind) (o : Oracle) : exchange k o = loop k.lim (eff k o) 0 := by
  cases k
  · exact pipelineLoop_eq o 0
  · exact reuseLoop_eq o 0
  · exact quicLoop_eq o 0
  · exact dohLoop_eq o 0

theorem eff_doh (o : Oracle) (i : Nat) : eff .doh o i = dohView (o i) := rfl

/-- pipeline / reuse: within the retry budget minus one the pool IS consulted: the attempt is the
    oracle's -/
theorem eff_early (k : Kind) (hq : k ≠ .quic) (hd : k ≠ .doh) (o : Oracle) (i : Nat) (h : i ≤ 5) :
    eff k o i = o i := by
  cases k <;> simp [eff, reuseEff, h] at hq hd ⊢

/-- quic: an attempt is the oracle's unless the previous one ended with a connection-level error
    (`forgetConn`), in which case it is a dial -/
theorem eff_quic (o : Oracle) (i : Nat) :
    eff .quic o (i + 1) = if (eff .quic o i).connErr then forcedDial (o (i + 1)) else o (i + 1) := rfl

theorem eff_quic_zero (o : Oracle) : eff .quic o 0 = o 0 := rfl

/-- quic without connection-level errors among the first `i` attempts: the oracle's attempts -/
theorem eff_quic_plain (o : Oracle) (i : Nat) (h : ∀ j, j < i → (o j).connErr = false) :
    eff .quic o i = o i := by
  induction i with
  | zero => rfl
  | succ n ih =>
    have hn : eff .quic o n = o n := ih (fun j hj => h j (by omega))
    rw [eff_quic, hn, h n (by omega)]
    rfl

/-- the attempt is the oracle's when the pool is consulted (index ≤ 5) and, for quic, no earlier
    attempt was a connection-level failure -/
theorem eff_plain (k : Kind) (hd : k ≠ .doh) (o : Oracle) (i : Nat) (h : i ≤ 5)
    (hq : k = .quic → ∀ j, j < i → (o j).connErr = false) : eff k o i = o i := by
  by_cases hk : k = .quic
  · subst hk; exact eff_quic_plain o i (hq rfl)
  · exact eff_early k hk hd o i h

/-! ### ★ bounded, total -/

/-- ★ at most `lim + 1` attempts, whatever happens in them. The loops are total functions
    (well-founded on `lim − retry`, no fuel). -/
theorem attempts_bounded (k : Kind) (o : Oracle) : (exchange k o).n ≤ k.lim + 1 := by
  rw [exchange_eq_loop k]; exact loop_n_le _ _ _ (Nat.zero_le _)

/-- ★ pipelined transports (UDP, TCP/DoT with pipelining): at most 6 attempts -/
theorem attempts_bounded_pipeline (o : Oracle) : (pipelineLoop o 0 0).n ≤ 6 := attempts_bounded .pipeline o
/-- ★ connection-reuse transports (TCP, DoT): at most 7 attempts (`retry <= 5`) -/
theorem attempts_bounded_reuse (o : Oracle) : (reuseLoop o 0 0).n ≤ 7 := attempts_bounded .reuse o
/-- ★ DoQ: at most 6 attempts -/
theorem attempts_bounded_quic (o : Oracle) : (quicLoop o 0 0 false).n ≤ 6 := attempts_bounded .quic o
/-- ★ DoH (h1, h2, h3): at most 4 round trips per exchange (`retry < 3`) -/
theorem attempts_bounded_doh (o : Oracle) : (dohLoop o 0 0).n ≤ 4 := attempts_bounded .doh o

/-- at least one attempt is made -/
theorem attempts_pos (k : Kind) (o : Oracle) : 0 < (exchange k o).n := by
  rw [exchange_eq_loop k]; exact loop_n_gt _ _ _

/-- the bounds are attained: a pool that keeps handing out stale connections -/
example : (exchange .pipeline (fun _ => ⟨.pooled, none, false, none, false, false, false⟩)).n = 6 := by simp [exchange, pipelineLoop]
example : (exchange .reuse (fun _ => ⟨.pooled, none, false, none, false, false, false⟩)).n = 7 := by
  simp [exchange, reuseLoop, forcedDial]
example : (exchange .quic (fun _ => ⟨.pooled, none, false, none, false, false, false⟩)).n = 6 := by simp [exchange, quicLoop]
example : (exchange .doh (fun _ => ⟨.pooled, none, false, none, false, false, false⟩)).n = 4 := by
  simp [exchange, dohLoop, Get.isErr]

/-! ### ★ what is retried -/

/-- every attempt but the last failed on a POOLED connection while the context was live and
    the retry budget was not exhausted: nothing else is ever retried (DoH: read through `dohView`) -/
theorem only_stale_is_retried (k : Kind) (o : Oracle) (i : Nat) (hi : i + 1 < (exchange k o).n) :
    (eff k o i).get = .pooled ∧ (eff k o i).res = none ∧ (eff k o i).ctxDone = false ∧ i < k.lim := by
  rw [exchange_eq_loop k] at hi
  have h := loop_nonfinal _ _ _ i (Nat.zero_le _) hi
  have h1 := (isStale_iff _).1 h.1
  exact ⟨h1.1, h1.2.1, h1.2.2, h.2⟩

/-- ★ a failure on a freshly dialled connection is returned — that attempt is the last one and
    the exchange reports an error -/
theorem fresh_failure_returned (k : Kind) (o : Oracle) (i : Nat) (hi : i < (exchange k o).n)
    (hf : (eff k o i).get = .fresh) (hr : (eff k o i).res = none) :
    (exchange k o).res = none ∧ (exchange k o).n = i + 1 := by
  have hlast : (exchange k o).n = i + 1 := by
    by_cases h : i + 1 < (exchange k o).n
    · have := (only_stale_is_retried k o i h).1
      rw [hf] at this; cases this
    · omega
  refine ⟨?_, hlast⟩
  rw [exchange_eq_loop k] at hlast ⊢
  rw [loop_final, hlast]
  simp [hr]

/-- likewise a failed dial (or a closed pool) ends the exchange with an error -/
theorem get_failure_returned (k : Kind) (o : Oracle) (i : Nat) (hi : i < (exchange k o).n)
    (hf : (eff k o i).get.isErr = true) : (exchange k o).res = none ∧ (exchange k o).n = i + 1 := by
  have hlast : (exchange k o).n = i + 1 := by
    by_cases h : i + 1 < (exchange k o).n
    · have := (only_stale_is_retried k o i h).1
      rw [this] at hf; simp [Get.isErr] at hf
    · omega
  refine ⟨?_, hlast⟩
  rw [exchange_eq_loop k] at hlast ⊢
  rw [loop_final, hlast]
  simp [hf]

/-- ★ once the context is done no further attempt starts -/
theorem ctx_done_stops (k : Kind) (o : Oracle) (i : Nat) (hi : i < (exchange k o).n)
    (hd : (eff k o i).ctxDone = true) : (exchange k o).n = i + 1 := by
  by_cases h : i + 1 < (exchange k o).n
  · have := (only_stale_is_retried k o i h).2.2.1
    rw [hd] at this; cases this
  · omega

/-! ### DoH in its own terms -/

theorem dohView_ctxDone (a : Attempt) : (dohView a).ctxDone = a.ctxDone := by
  unfold dohView; split <;> (try split) <;> (try split) <;> rfl

/-- DoH: a failure is retried iff it is a connection error (not a bad response) on a REUSED
    connection or a QUIC connection error, the caller's context alive -/
theorem dohView_pooled_fail (a : Attempt) :
    ((dohView a).get = .pooled ∧ (dohView a).res = none) ↔
      (a.ctxDone = false ∧ (a.get.isErr = true ∨ a.res = none) ∧ a.respErr = false ∧
        (a.get = .pooled ∨ a.connErr = true)) := by
  cases a with
  | mk g x c f fd ce re =>
    cases g <;> cases x <;> cases c <;> cases ce <;> cases re <;> simp [dohView, Get.isErr]

/-- ★ DoH: once the caller's context is done the exchange returns (an error), no further round trip -/
theorem doh_ctx_done_stops (o : Oracle) (i : Nat) (hi : i < (exchange .doh o).n)
    (hd : (o i).ctxDone = true) : (exchange .doh o).n = i + 1 ∧ (exchange .doh o).res = none := by
  have h1 := ctx_done_stops .doh o i hi (by rw [eff_doh, dohView_ctxDone]; exact hd)
  refine ⟨h1, ?_⟩
  rw [exchange_eq_loop .doh] at h1 ⊢
  rw [loop_final, h1]
  simp [eff, dohView, hd]

/-- ★ DoH: a failure on a connection that was dialled for this request (and is not a QUIC connection
    error), or a bad response on any connection, is reported, not retried -/
theorem doh_fresh_failure_returned (o : Oracle) (i : Nat) (hi : i < (exchange .doh o).n)
    (hfail : (o i).get.isErr = true ∨ (o i).res = none)
    (hnot : (o i).respErr = true ∨ ((o i).get ≠ .pooled ∧ (o i).connErr = false)) :
    (exchange .doh o).res = none ∧ (exchange .doh o).n = i + 1 := by
  by_cases hc : (o i).ctxDone = true
  · have := doh_ctx_done_stops o i hi hc
    exact ⟨this.2, this.1⟩
  · apply fresh_failure_returned .doh o i hi
    · rw [eff_doh]
      generalize o i = a at *
      cases a with
      | mk g x c f fd ce re =>
        cases g <;> cases x <;> cases c <;> cases ce <;> cases re <;> simp_all [dohView, Get.isErr]
    · rw [eff_doh]
      generalize o i = a at *
      cases a with
      | mk g x c f fd ce re =>
        cases g <;> cases x <;> cases c <;> cases ce <;> cases re <;> simp_all [dohView, Get.isErr]

/-- ★ the first `m ≤ lim` attempts fail on pooled connections (context live) and the next
    attempt — on a fresh or on a pooled connection — gets a reply ⇒ the exchange returns
    that reply, after exactly `m + 1` attempts. (`eff k o i = o i` for `i ≤ 5`, see `eff_early`;
    the reuse loop's attempt 6 is a dial.) -/
theorem stale_then_healthy_succeeds (k : Kind) (o : Oracle) (m x : Nat)
    (hm : m ≤ k.lim)
    (hs : ∀ i, i < m → (eff k o i).get = .pooled ∧ (eff k o i).res = none ∧ (eff k o i).ctxDone = false)
    (hg : (eff k o m).get = .pooled ∨ (eff k o m).get = .fresh) (hx : (eff k o m).res = some x) :
    exchange k o = ⟨some x, m + 1⟩ := by
  rw [exchange_eq_loop k]
  have h1 := loop_skip_stale k.lim (eff k o) 0 m (by omega)
    (fun i _ hi => (isStale_iff _).2 (hs i (by omega)))
  rw [h1, Nat.zero_add]
  apply loop_healthy
  · rcases hg with h | h <;> simp [h, Get.isErr]
  · exact hx

/-- the same in terms of the oracle itself when at most 5 connections were stale -/
theorem stale_then_healthy_succeeds_pool (k : Kind) (hk : k ≠ .doh) (o : Oracle) (m x : Nat)
    (hm : m ≤ 5)
    (hs : ∀ i, i < m → (o i).get = .pooled ∧ (o i).res = none ∧ (o i).ctxDone = false)
    (hq : k = .quic → ∀ i, i < m → (o i).connErr = false)
    (hg : (o m).get = .pooled ∨ (o m).get = .fresh) (hx : (o m).res = some x) :
    exchange k o = ⟨some x, m + 1⟩ := by
  have he : ∀ i, i ≤ m → eff k o i = o i := fun i hi =>
    eff_plain k hk o i (by omega) (fun hkq j hj => hq hkq j (by omega))
  apply stale_then_healthy_succeeds k o m x
  · cases k <;> simp [Kind.lim] at hk ⊢ <;> omega
  · intro i hi; rw [he i (by omega)]; exact hs i hi
  · rw [he m (Nat.le_refl _)]; exact hg
  · rw [he m (Nat.le_refl _)]; exact hx

/-- ★ (QUIC, D34) after `j ≤ 4` plain stale attempts a pooled attempt fails with a connection-level
    error — the connection is dying, possibly with its context not done yet — while the caller's
    context is live: the connection is forgotten, the NEXT attempt is a dial (not the same
    connection again), and if that reaches a healthy server the exchange returns its reply -/
theorem quic_dying_conn_redials (o : Oracle) (j x : Nat) (hj : j ≤ 4)
    (hs : ∀ i, i < j → isStale (o i) = true ∧ (o i).connErr = false)
    (hk : isStale (o j) = true) (hc : (o j).connErr = true)
    (hd : (o (j + 1)).forced = some (some x)) :
    exchange .quic o = ⟨some x, j + 2⟩ := by
  have he : ∀ i, i ≤ j → eff .quic o i = o i := fun i hi =>
    eff_quic_plain o i (fun t ht => (hs t (by omega)).2)
  rw [exchange_eq_loop .quic]
  have h1 := loop_skip_stale Kind.quic.lim (eff .quic o) 0 (j + 1) (by simp [Kind.lim]; omega)
    (fun i _ hi => by
      rw [he i (by omega)]
      by_cases hij : i = j
      · subst hij; exact hk
      · exact (hs i (by omega)).1)
  rw [h1, Nat.zero_add]
  have h2 : eff .quic o (j + 1) = forcedDial (o (j + 1)) := by
    rw [eff_quic, he j (Nat.le_refl _), hc]; rfl
  apply loop_healthy
  · rw [h2]; simp [forcedDial, hd, Get.isErr]
  · rw [h2]; simp [forcedDial, hd]

/-- without `forgetConn` the same oracle — the dying connection is handed out again and again —
    exhausts the budget (this is the pipeline loop's behaviour on it) -/
example : exchange .pipeline (fun _ => ⟨.pooled, none, false, some (some 7), false, true, false⟩) = ⟨none, 6⟩ := by
  simp [exchange, pipelineLoop]
example : exchange .quic (fun _ => ⟨.pooled, none, false, some (some 7), false, true, false⟩) = ⟨some 7, 2⟩ := by
  simp [exchange, quicLoop, forcedDial]

/-- ★ connection-reuse transports: HOWEVER MANY stale connections the pool holds — every attempt
    on a pooled connection may fail — if the context stays live and a dial reaches a healthy
    server, the exchange succeeds (the 7th attempt dials instead of asking the pool again) -/
theorem stale_pool_any_size_succeeds (o : Oracle)
    (hp : ∀ i, isHealthy (o i) = true ∨ isStale (o i) = true)
    (hd : ∀ i, ∃ x, (o i).forced = some (some x)) :
    (exchange .reuse o).res.isSome = true := by
  rw [exchange_eq_loop .reuse]
  have hn1 := loop_n_gt Kind.reuse.lim (eff .reuse o) 0
  have hn2 := loop_n_le Kind.reuse.lim (eff .reuse o) 0 (Nat.zero_le _)
  obtain ⟨j, hj⟩ : ∃ j, (loop Kind.reuse.lim (eff .reuse o) 0).n = j + 1 :=
    ⟨(loop Kind.reuse.lim (eff .reuse o) 0).n - 1, by omega⟩
  rw [loop_final, hj]
  simp only [Nat.add_sub_cancel]
  by_cases h6 : j < 6
  · have hns := loop_final_not_stale Kind.reuse.lim (eff .reuse o) 0 j (Nat.zero_le _) h6 hj
    have he : eff .reuse o j = o j := eff_early .reuse (by decide) (by decide) o j (by omega)
    rw [he] at hns ⊢
    rcases hp j with h | h
    · simp only [isHealthy, Bool.and_eq_true, Bool.not_eq_true'] at h
      simp [h.1, h.2]
    · rw [h] at hns; cases hns
  · have h7 : j = 6 := by simp only [Kind.lim] at hn2 hj; omega
    subst h7
    obtain ⟨x, hx⟩ := hd 6
    simp [eff, reuseEff, forcedDial, hx, Get.isErr]

/-- … and the pipelined / QUIC loops do not have that escape: 6 stale connections exhaust them -/
example : exchange .pipeline (fun _ => ⟨.pooled, none, false, some (some 7), false, false, false⟩) = ⟨none, 6⟩ := by
  simp [exchange, pipelineLoop]

/-- non-vacuity: 5 stale pooled connections, then a fresh one that answers (pipeline);
    6 for the reuse transport; and one more stale connection exhausts the budget -/
example : exchange .pipeline (oracleOf ((List.replicate 5 ⟨.pooled, none, false, none, false, false, false⟩) ++ [⟨.fresh, some 7, false, none, false, false, false⟩]))
    = ⟨some 7, 6⟩ := by simp [exchange, pipelineLoop, oracleOf, List.replicate]
example : exchange .reuse (oracleOf ((List.replicate 5 ⟨.pooled, none, false, none, false, false, false⟩) ++ [⟨.pooled, some 7, false, none, false, false, false⟩]))
    = ⟨some 7, 6⟩ := by simp [exchange, reuseLoop, oracleOf, List.replicate]
/-- the reuse loop's 7th attempt dials whatever the pool holds -/
example : exchange .reuse (fun _ => ⟨.pooled, none, false, some (some 7), false, false, false⟩) = ⟨some 7, 7⟩ := by
  simp [exchange, reuseLoop, forcedDial]
example : exchange .pipeline (oracleOf ((List.replicate 6 ⟨.pooled, none, false, none, false, false, false⟩) ++ [⟨.fresh, some 7, false, none, false, false, false⟩]))
    = ⟨none, 6⟩ := by simp [exchange, pipelineLoop, oracleOf, List.replicate]
example : exchange .pipeline (oracleOf [⟨.fresh, none, false, none, false, false, false⟩, ⟨.fresh, some 7, false, none, false, false, false⟩]) = ⟨none, 1⟩ := by
  simp [exchange, pipelineLoop, oracleOf]
example : exchange .reuse (oracleOf [⟨.pooled, none, true, none, false, false, false⟩, ⟨.fresh, some 7, false, none, false, false, false⟩]) = ⟨none, 1⟩ := by
  simp [exchange, reuseLoop, oracleOf]

/-- at most one dial per exchange: only the last attempt can be on a fresh connection -/
theorem at_most_one_dial (k : Kind) (o : Oracle) : dialsUpTo (eff k o) (exchange k o).n ≤ 1 := by
  rw [exchange_eq_loop k]; exact loop_dials_le_one _ _

/-- at most `lim + 1` exchanges are written to connections -/
theorem exchanges_bounded (k : Kind) (o : Oracle) : exchUpTo (eff k o) (exchange k o).n ≤ k.lim + 1 :=
  Nat.le_trans (exchUpTo_le _ _) (attempts_bounded k o)

/-! ### ★ a dead pipelined connection wakes every waiter -/

/-- ★ whatever happened on the connection before (`ops`), once it is aborted — by a read error
    in `readLoop`, a write error, or `Close` — the `<-c.ctx.Done()` arm of EVERY exchange
    waiting on it is ready: nobody stays blocked until its own deadline. The connection context
    is cancelled and the socket closed (exactly once), and it stays so. -/
theorem dead_conn_wakes_all (ops later : List ConnOp) (kill : ConnOp)
    (hk : kill = .readErr ∨ kill = .writeErr ∨ kill = .close) :
    let c := (((({} : PConn).run ops).step kill).run later)
    c.closed = true ∧ c.sockClosed = true ∧ ∀ w ∈ c.waiters, Arm.connDone ∈ ready c w := by
  intro c
  have hinv : c.inv := run_inv _ _ (step_inv _ _ (run_inv _ _ ⟨rfl, rfl⟩))
  have hclosed : c.closed = true := by
    apply run_closed_mono
    rcases hk with h | h | h <;> subst h <;> exact closeWithErr_closed _
  refine ⟨hclosed, by rw [hinv.2, hclosed], ?_⟩
  intro w _
  have : c.ctxDone = true := by rw [hinv.1, hclosed]
  simp [ready, this]

/-- `connDead` does not lose or add waiters, and each of them can leave at once -/
theorem connDead_wakes (c : PConn) (h : c.inv) :
    (connDead c).waiters = c.waiters ∧ ∀ w ∈ c.waiters, ready (connDead c) w ≠ [] := by
  refine ⟨closeWithErr_waiters c, ?_⟩
  intro w _
  have hi : (connDead c).inv := closeWithErr_inv c h
  have : (connDead c).ctxDone = true := by rw [hi.1]; exact closeWithErr_closed c
  simp [ready, this]

/-- ★ the same on C05's interleaving model (`Model/Pipeline.lean`: any number of exchanges,
    connections, read loops and an arbitrary server): once `closeWithErr` ran on connection `c`,
    then after ANY further steps of anybody, every exchange that is (still) blocked in the `select`
    on `c` can fire its `<-c.ctx.Done()` arm, and that arm makes it leave `exchange` with an error -/
theorem dead_conn_wakes_all_interleaved (cfg : Pipeline.Cfg) (s : Pipeline.State) (c : Nat)
    (later : List Pipeline.Step) (e q ch : Nat)
    (hw : (Pipeline.exec cfg (Pipeline.step cfg s (.close c)) later).pcs e = .waiting c q ch) :
    (Pipeline.step cfg (Pipeline.exec cfg (Pipeline.step cfg s (.close c)) later) (.dead e)).pcs e
      = .leaving c q none := by
  have hc := pl_exec_closed_mono cfg _ later c (pl_close_closes cfg s c)
  generalize Pipeline.exec cfg (Pipeline.step cfg s (.close c)) later = s' at hw hc ⊢
  simp [Pipeline.step, hw, hc]

/-- before that a waiter without reply and with a live caller context IS blocked (the statement
    above is not vacuous) -/
example : ready ({} : PConn) ⟨0, false, false⟩ = [] := by decide
example : ready (connDead { waiters := [⟨0, false, false⟩] }) ⟨0, false, false⟩ = [.connDone] := by decide

/-- a woken waiter returns an error to its retry loop (unless its reply had arrived), and
    the loop either returns it or retries on another connection, never on the dead one's terms:
    the decision is exactly `!newConn ∧ retry < lim ∧ ¬ctxDone` -/
theorem woken_waiter_next (lim : Nat) (o : Oracle) (r : Nat) (hg : (o r).get.isErr = false)
    (hr : (o r).res = none) :
    loop lim o r =
      if (o r).get = .pooled ∧ r < lim ∧ (o r).ctxDone = false then loop lim o (r + 1) else ⟨none, r + 1⟩ := by
  rw [loop]
  generalize o r = a at *
  cases a with
  | mk g x c => cases g <;> cases c <;> simp_all [Get.isErr]

/-- in the `waiters` component every parked exchange is woken, whatever the mix of fresh and
    pooled waiters -/
theorem waiters_all_woken (fresh : List Bool) (nextOk : Bool) : (waitersOutcome fresh nextOk).2 = true := by
  simp only [waitersOutcome]
  rw [List.all_eq_true]
  intro w _
  have hinv : ∀ (l : List Waiter) (c : PConn), c.inv → (l.foldl (fun c w => c.step (.wait w)) c).inv := by
    intro l
    induction l with
    | nil => intro c h; exact h
    | cons a t ih => intro c h; exact ih _ (step_inv c _ h)
  have hi := closeWithErr_inv _ (hinv ((List.range fresh.length).map fun j => (⟨j, false, false⟩ : Waiter)) {} ⟨rfl, rfl⟩)
  have hc : (connDead (((List.range fresh.length).map fun j => (⟨j, false, false⟩ : Waiter)).foldl
      (fun c w => c.step (.wait w)) {})).ctxDone = true := by
    rw [show connDead _ = PConn.closeWithErr _ from rfl, hi.1]; exact closeWithErr_closed _
  simp [ready, hc]

/-- … a waiter that got the connection from the pool and then finds a healthy server succeeds,
    one that had dialled it reports the error -/
theorem waiter_outcome (f nextOk : Bool) :
    (exchange .pipeline (waiterOracle f nextOk)).res.isSome = (!f && nextOk) := by
  cases f <;> cases nextOk <;> simp [exchange, pipelineLoop, waiterOracle]

/-! ### ★ the write deadline in force belongs to the exchange that is writing -/

/-- ★ whatever the number of exchanges and their interleaving: while exchange `x` is inside
    `c.c.Write` (possibly blocked — the peer does not read), the write deadline in force on the
    socket is the deadline of `x`'s OWN context. An exchange that merely waits for the write lock,
    with a later deadline or with none, cannot extend it: `SetWriteDeadline` is called under the
    lock only. -/
theorem write_deadline_is_writers_own (ddl : Nat → Option Nat) (ops : List WOp) (x : Nat)
    (h : (wrun ddl winit ops).pc x = .writing) : (wrun ddl winit ops).sockDdl = ddl x :=
  (wrun_inv ddl winit ops (winit_inv ddl)).2 x h

/-- at most one exchange is inside `Write` -/
theorem one_writer_at_a_time (ddl : Nat → Option Nat) (ops : List WOp) (x y : Nat)
    (hx : (wrun ddl winit ops).pc x = .writing) (hy : (wrun ddl winit ops).pc y = .writing) : x = y := by
  have h := (wrun_inv ddl winit ops (winit_inv ddl)).1
  have h1 := h x (Or.inr hx)
  have h2 := h y (Or.inr hy)
  rw [h1] at h2
  exact Option.some.inj h2

/-- the statement is not vacuous, and the ordering matters: exchange 0 (deadline 400) is inside Write,
    exchange 1 (deadline 3000) enters `writeTCP`. As written the socket keeps 400; with the deadline
    set BEFORE the lock is taken it becomes 3000 (and `none` — no deadline at all — if exchange 1
    has none) -/
example : let s := wrun (fun x => if x = 0 then some 400 else some 3000) winit [.step 0, .step 0, .step 0, .step 1, .step 1]
    s.pc 0 = .writing ∧ s.pc 1 = .waiting ∧ s.sockDdl = some 400 := by decide
example : let s := wrunEarly (fun x => if x = 0 then some 400 else some 3000) winit [.step 0, .step 0, .step 1]
    s.pc 0 = .writing ∧ s.pc 1 = .waiting ∧ s.sockDdl = some 3000 := by decide
example : let s := wrunEarly (fun x => if x = 0 then some 400 else none) winit [.step 0, .step 0, .step 1]
    s.pc 0 = .writing ∧ s.sockDdl = none := by decide

set_option maxRecDepth 8000 in
/-- tie: in `writeTCP` the lock-acquisition `select` precedes `SetWriteDeadline`, which precedes
    `Write`; the lock is released by the deferred receive; no other function of the pipelined
    connection touches the write deadline; the lock is a 1-buffered channel -/
theorem pins_write_order :
    Facts.c14_writeTCPBody = "{ select { case c.wm <- struct{}{}: case <-ctx.Done(): return context.Cause(ctx) case <-c.ctx.Done(): return context.Cause(c.ctx) } defer func() { <-c.wm }() ddl, _ := ctx.Deadline() c.c.SetWriteDeadline(ddl) _, err := c.c.Write(b) if err != nil { c.closeWithErr(fmt.Errorf(\"write err, %w\", err)) } return err }" ∧
    Facts.c14_nWriteDdl_writeTCP = 1 ∧ Facts.c14_nWriteDdl_write = 0 ∧ Facts.c14_nWriteDdl_exchange = 0 ∧
    Facts.c14_nWriteDdl_readLoop = 0 ∧ Facts.c14_nSetDeadline_readLoop = 0 ∧
    Facts.c14_wmMake = "pc := &pipelineConn{ c: c, t: t, ctx: ctx, cancelCause: cancel, wm: make(chan struct{}, 1), queue: make(map[uint32]chan *dnsmsg.Msg), }" ∧
    -- an idle time-out of the read loop is reported as the plain `ErrIdleTimeOut` (no Timeout() method):
    -- to the retry loop it is a connection failure like any other
    Facts.c14_idleErrCond = "errors.Is(err, os.ErrDeadlineExceeded)" ∧ Facts.c14_idleErrMap = "err = ErrIdleTimeOut" := by
  decide

set_option maxRecDepth 8000 in
/-- tie (D34, fixed 69d4cbf): in `exchangePayload` a connection-level error makes the transport forget
    the connection BEFORE the retry decision; `forgetConn` clears `t.c`; `getConn` otherwise trusts
    the connection's context -/
theorem pins_quic_forget :
    Facts.c14_quicPayloadBody = "{ retry := 0 for { c, newConn, err := t.getConn(ctx) if err != nil { return nil, err } b, err := t.exchangeConn(ctx, payload, c) if err != nil { if isQuicConnErr(err) { t.forgetConn(c) } if !newConn && retry < 5 && !ctxIsDone(ctx) { retry++ continue } } return b, err } }" ∧
    Facts.c14_quicForgetBody = "{ t.m.Lock() if t.c == c { t.c = nil } t.m.Unlock() }" ∧
    Facts.c14_quicIsConnErrBody = "{ var ( appErr *quic.ApplicationError transErr *quic.TransportError idleErr *quic.IdleTimeoutError resetErr *quic.StatelessResetError hsErr *quic.HandshakeTimeoutError versionErr *quic.VersionNegotiationError ) return errors.As(err, &appErr) || errors.As(err, &transErr) || errors.As(err, &idleErr) || errors.As(err, &resetErr) || errors.As(err, &hsErr) || errors.As(err, &versionErr) }" ∧
    Facts.c14_quicGetConnAlive = "!ctxIsDone(t.c.Context())" := by
  decide

set_option maxRecDepth 16000 in
/-- tie (941027f, 43a2a92): the DoH loop and what `exchangeOnce` calls a connection error (RoundTrip
    failed / the body read failed; not: bad status, undecodable body); a DoQ stream is opened with
    `OpenStreamSync(ctx)` — a wait for stream credit bounded by the exchange's context — and nothing
    else opens streams -/
theorem pins_doh_loop :
    Facts.c14_dohExchangeBody = "{ retry := 0 for { var reused atomic.Bool trace := &httptrace.ClientTrace{GotConn: func(info httptrace.GotConnInfo) { reused.Store(info.Reused) }} r, connErr, err := u.exchangeOnce(httptrace.WithClientTrace(ctx, trace), rawQuery) if connErr && (reused.Load() || isQuicConnErr(err) || isHttp3Err(err)) && retry < 3 && ctx.Err() == nil { retry++ continue } return r, err } }" ∧
    Facts.c14_dohIsH3ErrBody = "{ var h3Err *http3.Error return errors.As(err, &h3Err) }" ∧
    Facts.c14_dohOnceBody = "{ req := u.reqTemplate.WithContext(ctx) req.URL = new(urlpkg.URL) *req.URL = *u.urlTemplate req.URL.RawQuery = rawQuery resp, err := u.rt.RoundTrip(req) if err != nil { return nil, true, fmt.Errorf(\"http request failed: %w\", err) } defer resp.Body.Close() if resp.StatusCode != http.StatusOK { body1k, _ := io.ReadAll(io.LimitReader(resp.Body, 1024)) if body1k != nil { return nil, false, fmt.Errorf(\"bad http status codes %d with body [%s]\", resp.StatusCode, body1k) } return nil, false, fmt.Errorf(\"bad http status codes %d\", resp.StatusCode) } bb := bufPool4k.Get() defer bufPool4k.Release(bb) _, err = bb.ReadFrom(io.LimitReader(resp.Body, 65535)) if err != nil { return nil, true, fmt.Errorf(\"failed to read http body: %w\", err) } m, err := dnsmsg.UnpackMsg(bb.Bytes()) return m, false, err }" ∧
    Facts.c14_nsel0_dohOnce = 0 ∧
    Facts.c14_quicOpenStream = "s, err := c.OpenStreamSync(ctx)" ∧ Facts.c14_quicOpenStreamCalls = 1 ∧
    Facts.c14_quicExchangeConnBody = "{ s, err := c.OpenStreamSync(ctx) if err != nil { return nil, fmt.Errorf(\"failed to open stream, %w\", err) } return t.exchangeStream(ctx, payload, s) }" := by
  decide

/-! ### ★ every wait has a context arm: the complete table of `select`s on the exchange paths -/

/-- every `select` statement of the functions on the exchange paths, with the pinned source
    text of each of its clauses (regenerated from /repo by the extractor) -/
def waitTable : List Sel := [
  ⟨"pipelineConn.exchange", [Facts.c14_arm_pipeEx_0, Facts.c14_arm_pipeEx_1, Facts.c14_arm_pipeEx_2]⟩,
  ⟨"pipelineConn.writeTCP", [Facts.c14_arm_pipeWr_0, Facts.c14_arm_pipeWr_1, Facts.c14_arm_pipeWr_2]⟩,
  ⟨"ReuseConnTransport.exchangeConnCtx", [Facts.c14_arm_reuseEx_0, Facts.c14_arm_reuseEx_1]⟩,
  ⟨"ReuseConnTransport.asyncDial", [Facts.c14_arm_reuseDial_0, Facts.c14_arm_reuseDial_1]⟩,
  ⟨"ReuseConnTransport.asyncDial", [Facts.c14_arm_reuseDial_2, Facts.c14_arm_reuseDial_3]⟩,
  ⟨"QuicTransport.exchangeStream", [Facts.c14_arm_quicStream_0, Facts.c14_arm_quicStream_1]⟩,
  ⟨"dialingQuicCall.wait", [Facts.c14_arm_quicWait_0, Facts.c14_arm_quicWait_1]⟩,
  ⟨"DoHTransport.ExchangeContext", [Facts.c14_arm_doh_0, Facts.c14_arm_doh_1]⟩]

set_option maxRecDepth 8000 in
/-- ★ every blocking `select` on an exchange path has a `ctx.Done()` arm (the caller's context,
    or `callCtx` derived from it) or a connection-context arm — decided over the whole table -/
theorem every_wait_has_ctx : ∀ s ∈ waitTable, s.hasCtxArm = true := by decide

set_option maxRecDepth 8000 in
/-- in fact each of them has an arm on the CALLER's context (or on `callCtx`, which is
    `context.WithCancel(ctx)`), not just on the connection's -/
theorem every_wait_has_caller_ctx :
    ∀ s ∈ waitTable, (s.arms.any fun a => armKind a == .callerCtx || armKind a == .derivedCtx) = true := by
  decide

set_option maxRecDepth 8000 in
/-- the waits of a pipelined connection are also woken by the connection's own context -/
theorem pipeline_waits_have_conn_ctx :
    ∀ s ∈ waitTable, (s.fn == "pipelineConn.exchange" || s.fn == "pipelineConn.writeTCP") = true →
      (s.arms.any fun a => armKind a == .connCtx) = true := by decide

def selsOf (fn : String) : List Sel := waitTable.filter (·.fn == fn)
def armsOf (fn : String) : Nat := ((selsOf fn).map (·.arms.length)).sum

set_option maxRecDepth 8000 in
/-- the table is complete: per function, as many `select`s and as many clauses as the source
    has; none of them has a `default`; the other functions on the exchange paths contain no
    `select` at all; the only other `select`s of these files (`readLoop`'s hand-off and
    `ctxIsDone`) have a `default` clause, i.e. never block -/
theorem waitTable_complete :
    (selsOf "pipelineConn.exchange").length = Facts.c14_nsel_pipeEx ∧ armsOf "pipelineConn.exchange" = Facts.c14_narm_pipeEx ∧
    (selsOf "pipelineConn.writeTCP").length = Facts.c14_nsel_pipeWr ∧ armsOf "pipelineConn.writeTCP" = Facts.c14_narm_pipeWr ∧
    (selsOf "ReuseConnTransport.exchangeConnCtx").length = Facts.c14_nsel_reuseEx ∧
      armsOf "ReuseConnTransport.exchangeConnCtx" = Facts.c14_narm_reuseEx ∧
    (selsOf "ReuseConnTransport.asyncDial").length = Facts.c14_nsel_reuseDial ∧
      armsOf "ReuseConnTransport.asyncDial" = Facts.c14_narm_reuseDial ∧
    (selsOf "QuicTransport.exchangeStream").length = Facts.c14_nsel_quicStream ∧
      armsOf "QuicTransport.exchangeStream" = Facts.c14_narm_quicStream ∧
    (selsOf "dialingQuicCall.wait").length = Facts.c14_nsel_quicWait ∧ armsOf "dialingQuicCall.wait" = Facts.c14_narm_quicWait ∧
    (selsOf "DoHTransport.ExchangeContext").length = Facts.c14_nsel_doh ∧ armsOf "DoHTransport.ExchangeContext" = Facts.c14_narm_doh ∧
    Facts.c14_ndef_pipeEx + Facts.c14_ndef_pipeWr + Facts.c14_ndef_reuseEx + Facts.c14_ndef_reuseDial +
      Facts.c14_ndef_quicStream + Facts.c14_ndef_quicWait + Facts.c14_ndef_doh = 0 ∧
    Facts.c14_nsel0_pipeXc + Facts.c14_nsel0_pipeWrite + Facts.c14_nsel0_reuseXc + Facts.c14_nsel0_reuseConn +
      Facts.c14_nsel0_reuseGetIdle + Facts.c14_nsel0_quicXc + Facts.c14_nsel0_quicPayload + Facts.c14_nsel0_quicConn +
      Facts.c14_nsel0_quicGetConn + Facts.c14_nsel0_dohExchange + Facts.c14_nsel0_fallback = 0 ∧
    Facts.c14_nsel_readLoop = Facts.c14_ndef_readLoop ∧
    Facts.c14_ctxIsDoneBody = "{ select { case <-ctx.Done(): return true default: return false } }" := by decide

/-- the number of `<-ctx.Done()` / `<-callCtx.Done()` / `<-c.ctx.Done()` receives per function
    agrees with the classification of the table's clauses -/
theorem ctx_arm_counts :
    Facts.c14_nctx_pipeEx = 1 ∧ Facts.c14_nconn_pipeEx = 1 ∧ Facts.c14_nctx_pipeWr = 1 ∧
    Facts.c14_nctx_reuseEx = 1 ∧ Facts.c14_nctx_reuseDial = 0 ∧ Facts.c14_nctx_reuseDialCall = 2 ∧
    Facts.c14_nctx_quicStream = 1 ∧ Facts.c14_nctx_quicWait = 1 ∧ Facts.c14_nctx_doh = 1 ∧
    Facts.c14_callCtx = "callCtx, cancel := context.WithCancel(ctx)" := by decide

/-! ### ★ the model meets the executable specification -/

theorem oracleOf_lt (l : List Attempt) (i : Nat) (h : i < l.length) : oracleOf l i = l[i] := by
  simp [oracleOf, List.getD, h]

theorem takeWhile_stale (l : List Attempt) (i : Nat) (h : i < (l.takeWhile isStale).length) :
    isStale (l.getD i defaultAttempt) = true := by
  induction l generalizing i with
  | nil => simp at h
  | cons a t ih =>
    by_cases ha : isStale a = true
    · simp only [List.takeWhile_cons, ha, if_true, List.length_cons] at h
      cases i with
      | zero => simpa [List.getD] using ha
      | succ j =>
        have := ih j (by omega)
        simpa [List.getD] using this
    · simp [ha] at h

theorem all_live_getD (l : List Attempt) (h : l.all (fun a => !a.ctxDone && !a.forcedDone) = true) (i : Nat) :
    (l.getD i defaultAttempt).ctxDone = false ∧ (l.getD i defaultAttempt).forcedDone = false := by
  by_cases hi : i < l.length
  · have := List.all_eq_true.1 h (l[i]) (List.getElem_mem hi)
    simpa [List.getD, hi] using this
  · simp [List.getD, List.getElem?_eq_none (Nat.le_of_not_lt hi), defaultAttempt]

theorem forcedDial_ctxDone (a : Attempt) : (forcedDial a).ctxDone = a.forcedDone := by
  unfold forcedDial; split <;> rfl

theorem eff_ctxDone (k : Kind) (o : Oracle) (i : Nat) (h1 : (o i).ctxDone = false) (h2 : (o i).forcedDone = false) :
    (eff k o i).ctxDone = false := by
  cases k
  · simp [eff, h1]
  · simp only [eff, reuseEff]; split <;> simp [forcedDial_ctxDone, h1, h2]
  · cases i with
    | zero => simpa [eff, quicEff] using h1
    | succ n => simp only [eff, quicEff]; split <;> simp [forcedDial_ctxDone, h1, h2]
  · simp [eff, dohView_ctxDone, h1]

theorem stalePool_getD (l : List Attempt) (h : stalePoolHealthyServer l = true) (i : Nat) :
    (isHealthy (l.getD i defaultAttempt) = true ∨ isStale (l.getD i defaultAttempt) = true) ∧
      ∃ x, (l.getD i defaultAttempt).forced = some (some x) := by
  by_cases hi : i < l.length
  · have := List.all_eq_true.1 h (l[i]) (List.getElem_mem hi)
    simp only [Bool.and_eq_true, Bool.or_eq_true] at this
    refine ⟨by simpa [List.getD, hi] using this.1, ?_⟩
    have h2 := this.2
    cases hf : l[i].forced with
    | none => simp [hf] at h2
    | some r =>
      cases r with
      | none => simp [hf] at h2
      | some x => exact ⟨x, by simp [List.getD, hi, hf]⟩
  · refine ⟨Or.inl ?_, 1, ?_⟩ <;>
      simp [List.getD, List.getElem?_eq_none (Nat.le_of_not_lt hi), defaultAttempt, isHealthy, Get.isErr, healthyDial]

/-- loop level: the effective attempts agree with a view `v` on `0 … m`; `m ≤ lim` stale attempts,
    then a healthy one -/
theorem loop_stale_then_healthy (lim : Nat) (e v : Oracle) (m x : Nat) (hm : m ≤ lim)
    (hv : ∀ i, i ≤ m → e i = v i) (hs : ∀ i, i < m → isStale (v i) = true)
    (hg : (v m).get.isErr = false) (hx : (v m).res = some x) : loop lim e 0 = ⟨some x, m + 1⟩ := by
  have h1 := loop_skip_stale lim e 0 m (by omega) (fun i _ hi => by rw [hv i (by omega)]; exact hs i (by omega))
  rw [h1, Nat.zero_add]
  apply loop_healthy
  · rw [hv m (Nat.le_refl _)]; exact hg
  · rw [hv m (Nat.le_refl _)]; exact hx

/-- loop level: `j ≤ lim` stale attempts, then a fresh connection that fails -/
theorem loop_stale_then_fresh_failure (lim : Nat) (e v : Oracle) (j : Nat) (hj : j ≤ lim)
    (hv : ∀ i, i ≤ j → e i = v i) (hs : ∀ i, i < j → isStale (v i) = true)
    (hf : (v j).get = .fresh) (hr : (v j).res = none) : loop lim e 0 = ⟨none, j + 1⟩ := by
  have h1 := loop_skip_stale lim e 0 j (by omega) (fun i _ hi => by rw [hv i (by omega)]; exact hs i (by omega))
  rw [h1, Nat.zero_add, loop, hv j (Nat.le_refl _)]
  simp [hf, hr]

/-- `j ≤ 5` stale pooled attempts, then a fresh connection that fails: the exchange fails after
    exactly `j + 1` attempts (for DoH see `doh_fresh_failure_returned`) -/
theorem stale_then_fresh_failure (k : Kind) (hk : k ≠ .doh) (o : Oracle) (j : Nat) (hj : j ≤ k.poolLim)
    (hs : ∀ i, i < j → isStale (o i) = true)
    (hq : k = .quic → ∀ i, i < j → (o i).connErr = false)
    (hf : (o j).get = .fresh) (hr : (o j).res = none) :
    exchange k o = ⟨none, j + 1⟩ := by
  have hj5 : j ≤ 5 := by cases k <;> simp [Kind.poolLim] at hj hk ⊢ <;> omega
  have hlim : j ≤ k.lim := by cases k <;> simp [Kind.lim] at hk ⊢ <;> omega
  rw [exchange_eq_loop k]
  exact loop_stale_then_fresh_failure k.lim (eff k o) o j hlim
    (fun i hi => eff_plain k hk o i (by omega) (fun hkq t ht => hq hkq t (by omega))) hs hf hr

/-- ★ DoH is no longer exempt: `m ≤ 3` round trips fail with a connection error on a reused
    connection (h1/h2: `GotConn.Reused`; h3: a QUIC connection error), the caller's context alive, and
    the next round trip gets a reply ⇒ the exchange returns that reply -/
theorem doh_stale_then_healthy_succeeds (o : Oracle) (m x : Nat) (hm : m ≤ 3)
    (hs : ∀ i, i < m → (o i).ctxDone = false ∧ ((o i).get.isErr = true ∨ (o i).res = none) ∧
      (o i).respErr = false ∧ ((o i).get = .pooled ∨ (o i).connErr = true))
    (hc : (o m).ctxDone = false) (hg : (o m).get.isErr = false) (hx : (o m).res = some x) :
    exchange .doh o = ⟨some x, m + 1⟩ := by
  rw [exchange_eq_loop .doh]
  apply loop_stale_then_healthy Kind.doh.lim (eff .doh o) (eff .doh o) m x (by simpa [Kind.lim] using hm)
    (fun _ _ => rfl)
  · intro i hi
    rw [isStale_iff, eff_doh]
    have := (dohView_pooled_fail (o i)).2 (hs i hi)
    exact ⟨this.1, this.2, by rw [dohView_ctxDone]; exact (hs i hi).1⟩
  · rw [eff_doh]; simp [dohView, hc, hg, hx]
  · rw [eff_doh]; simp [dohView, hc, hg, hx]

/-- non-vacuity: three reused connections died, the fourth round trip answers; a fourth dead one
    exhausts the budget; a bad response is not retried -/
example : exchange .doh (oracleOf ((List.replicate 3 ⟨.pooled, none, false, none, false, false, false⟩) ++ [⟨.fresh, some 7, false, none, false, false, false⟩]))
    = ⟨some 7, 4⟩ := by simp [exchange, dohLoop, oracleOf, List.replicate, Get.isErr]
example : exchange .doh (oracleOf ((List.replicate 4 ⟨.pooled, none, false, none, false, false, false⟩) ++ [⟨.fresh, some 7, false, none, false, false, false⟩]))
    = ⟨none, 4⟩ := by simp [exchange, dohLoop, oracleOf, List.replicate, Get.isErr]
example : exchange .doh (oracleOf [⟨.pooled, none, false, none, false, false, true⟩, ⟨.fresh, some 7, false, none, false, false, false⟩])
    = ⟨none, 1⟩ := by simp [exchange, dohLoop, oracleOf, Get.isErr]

/-- what holds of every element of `l.takeWhile p` holds of the first elements of `l` -/
theorem takeWhile_all_getD (p q : Attempt → Bool) (l : List Attempt) (h : (l.takeWhile p).all q = true)
    (i : Nat) (hi : i < (l.takeWhile p).length) : q (l.getD i defaultAttempt) = true := by
  induction l generalizing i with
  | nil => simp at hi
  | cons a t ih =>
    by_cases ha : p a = true
    · simp only [List.takeWhile_cons, ha, if_true, List.length_cons, List.all_cons, Bool.and_eq_true] at hi h
      cases i with
      | zero => simpa [List.getD] using h.1
      | succ j => simpa [List.getD] using ih h.2 j (by omega)
    · simp [ha] at hi

theorem takeWhile_all_self (p : Attempt → Bool) (l : List Attempt) : (l.takeWhile p).all p = true := by
  induction l with
  | nil => rfl
  | cons a t ih =>
    by_cases ha : p a = true
    · simp [ha, ih]
    · simp [ha]

theorem takeWhile_self_getD (p : Attempt → Bool) (l : List Attempt) (i : Nat) (hi : i < (l.takeWhile p).length) :
    p (l.getD i defaultAttempt) = true :=
  takeWhile_all_getD p p l (takeWhile_all_self p l) i hi

theorem plainPrefix_connErr (k : Kind) (l : List Attempt) (h : plainPrefix k l = true) (hk : k = .quic)
    (i : Nat) (hi : i < (l.takeWhile isStale).length) : (oracleOf l i).connErr = false := by
  subst hk
  have h' : ((l.takeWhile isStale).all fun a => !a.connErr) = true := by
    simpa [plainPrefix, List.any_eq_true, List.all_eq_true] using h
  have := takeWhile_all_getD isStale (fun a => !a.connErr) l h' i hi
  simp only [Bool.not_eq_true'] at this
  exact this

theorem dohView_default : dohView defaultAttempt = defaultAttempt := by
  simp [dohView, defaultAttempt, Get.isErr]

theorem getD_map_dohView (l : List Attempt) (i : Nat) :
    (l.map dohView).getD i defaultAttempt = dohView (l.getD i defaultAttempt) := by
  by_cases hi : i < l.length
  · simp [List.getD, hi]
  · simp [List.getD, List.getElem?_eq_none (Nat.le_of_not_lt hi), dohView_default]

theorem specView_ne_doh (k : Kind) (hk : k ≠ .doh) (l : List Attempt) : specView k l = l := by
  cases k <;> simp [specView] at hk ⊢

/-- the attempts as they really happen are the viewed script's attempts: always for DoH; for the
    other loops while the pool is consulted and (quic) no connection-level failure came before -/
theorem eff_view (k : Kind) (l : List Attempt) (i : Nat) (h : i ≤ 5)
    (hq : k = .quic → ∀ j, j < i → (oracleOf l j).connErr = false) :
    eff k (oracleOf l) i = oracleOf (specView k l) i := by
  by_cases hk : k = .doh
  · subst hk
    simp only [eff_doh, oracleOf, specView, beq_self_eq_true, if_true]
    exact (getD_map_dohView l i).symm
  · rw [specView_ne_doh k hk, eff_plain k hk (oracleOf l) i h hq]

theorem poolLim_le (k : Kind) : k.poolLim ≤ 5 ∧ k.poolLim ≤ k.lim := by
  cases k <;> simp [Kind.poolLim, Kind.lim]

/-- ★ for every loop, every fault script and every choice of observables, the outcome the
    model predicts satisfies the executable specification written from the property text
    (`spec` is what the harness applies to the REAL transports' observed outcomes) -/
theorem model_meets_spec (k : Kind) (l : List Attempt) (obs : String) :
    spec k l (predict k (oracleOf l) obs) = true := by
  generalize hlv : specView k l = lv
  have hquic : k = .quic → lv = l := fun hkq => by rw [← hlv]; exact specView_ne_doh k (by rw [hkq]; decide) l
  have hview : ∀ i, i ≤ 5 → (k = .quic → ∀ j, j < i → (oracleOf lv j).connErr = false) →
      eff k (oracleOf l) i = oracleOf lv i := by
    intro i hi hq
    rw [← hlv]
    exact eff_view k l i hi (fun hkq j hj => by have := hq hkq j hj; rwa [hquic hkq] at this)
  have hA : (predict k (oracleOf l) obs).t ≠ "late" := by
    simp only [predict]; split <;> decide
  have hB : plainPrefix k lv = true → staleThenHealthy k.poolLim lv = true →
      (predict k (oracleOf l) obs).ok = true := by
    intro hpp hs
    simp only [staleThenHealthy, Bool.and_eq_true, decide_eq_true_eq] at hs
    obtain ⟨hm, hh⟩ := hs
    have hq : k = .quic → ∀ i, i < (lv.takeWhile isStale).length → (oracleOf lv i).connErr = false :=
      fun hkq i hi => plainPrefix_connErr k lv hpp hkq i hi
    generalize hmm : (lv.takeWhile isStale).length = m at hm hh hq
    have hm5 := (poolLim_le k).1
    have hst : ∀ i, i < m → isStale (oracleOf lv i) = true := fun i hi => takeWhile_stale lv i (by omega)
    have hh' : isHealthy (oracleOf lv m) = true := hh
    obtain ⟨x, hx⟩ : ∃ x, (oracleOf lv m).res = some x := by
      cases hr : (oracleOf lv m).res with
      | none => simp [isHealthy, hr] at hh'
      | some x => exact ⟨x, rfl⟩
    have hg : (oracleOf lv m).get.isErr = false := by
      simp only [isHealthy, Bool.and_eq_true, Bool.not_eq_true'] at hh'; exact hh'.1
    have := loop_stale_then_healthy k.lim (eff k (oracleOf l)) (oracleOf lv) m x
      (Nat.le_trans hm (poolLim_le k).2)
      (fun i hi => hview i (by omega) (fun hkq j hj => hq hkq j (by omega))) hst hg hx
    simp [predict, exchange_eq_loop k, this]
  have hB0 : ∀ j, plainPrefix k lv = true → freshFailureAt k.poolLim lv = some j →
      (predict k (oracleOf l) obs).ok = false ∧ ∀ a, (predict k (oracleOf l) obs).att = some a → a ≤ j + 1 := by
    intro j hpp hj
    simp only [freshFailureAt] at hj
    split at hj
    · rename_i hc
      cases hj
      simp only [Bool.and_eq_true, decide_eq_true_eq, beq_iff_eq] at hc
      obtain ⟨⟨hle, hfresh⟩, hnone⟩ := hc
      have hm5 := (poolLim_le k).1
      have hex := loop_stale_then_fresh_failure k.lim (eff k (oracleOf l)) (oracleOf lv) _
        (Nat.le_trans hle (poolLim_le k).2)
        (fun i hi => hview i (by omega)
          (fun hkq t ht => plainPrefix_connErr k lv hpp hkq t (by omega)))
        (fun i hi => takeWhile_stale lv i hi) hfresh (Option.isNone_iff_eq_none.1 hnone)
      refine ⟨by simp [predict, exchange_eq_loop k, hex], ?_⟩
      intro a ha
      simp only [predict] at ha
      split at ha
      · cases ha
        rw [exchange_eq_loop k, hex]
        exact exchUpTo_le _ _
      · cases ha
    · cases hj
  have hB2 : k = .reuse → stalePoolHealthyServer lv = true → (predict k (oracleOf l) obs).ok = true := by
    intro hk hs
    subst hk
    have hl : lv = l := by rw [← hlv]; exact specView_ne_doh .reuse (by decide) l
    rw [hl] at hs
    have := stale_pool_any_size_succeeds (oracleOf l)
      (fun i => (stalePool_getD l hs i).1) (fun i => (stalePool_getD l hs i).2)
    simpa [predict] using this
  have hB3 : k = .quic → quicKillThenDial lv = true → (predict k (oracleOf l) obs).ok = true := by
    intro hk hs
    rw [hquic hk] at hs
    subst hk
    simp only [quicKillThenDial, Bool.and_eq_true, decide_eq_true_eq] at hs
    obtain ⟨⟨⟨hj, hst⟩, hce⟩, hd⟩ := hs
    have hpre : ∀ i, i < (l.takeWhile fun a => isStale a && !a.connErr).length →
        isStale (oracleOf l i) = true ∧ (oracleOf l i).connErr = false := by
      intro i hi
      have := takeWhile_self_getD (fun a => isStale a && !a.connErr) l i hi
      simp only [Bool.and_eq_true, Bool.not_eq_true'] at this
      exact this
    obtain ⟨x, hx⟩ : ∃ x, (oracleOf l ((l.takeWhile fun a => isStale a && !a.connErr).length + 1)).forced = some (some x) := by
      cases hf : (oracleOf l ((l.takeWhile fun a => isStale a && !a.connErr).length + 1)).forced with
      | none => simp [oracleOf] at hf; simp [hf] at hd
      | some r =>
        cases r with
        | none => simp [oracleOf] at hf; simp [hf] at hd
        | some x => exact ⟨x, rfl⟩
    have := quic_dying_conn_redials (oracleOf l) _ x hj hpre hst hce hx
    simp [predict, this]
  have hC : ∀ a, (predict k (oracleOf l) obs).att = some a → a ≤ k.lim + 1 := by
    intro a ha
    simp only [predict] at ha
    split at ha
    · cases ha; exact exchanges_bounded k _
    · cases ha
  have hD : ∀ d, (predict k (oracleOf l) obs).dials = some d → d ≤ 1 := by
    intro d hd
    simp only [predict] at hd
    split at hd
    · cases hd; exact at_most_one_dial k _
    · cases hd
  have hE : lv.all (fun a => !a.ctxDone && !a.forcedDone) = true → (predict k (oracleOf l) obs).t = "prompt" := by
    intro h
    have h1 := all_live_getD lv h ((exchange k (oracleOf l)).n - 1)
    have : (eff k (oracleOf l) ((exchange k (oracleOf l)).n - 1)).ctxDone = false := by
      by_cases hk : k = .doh
      · subst hk
        have hl : lv = l.map dohView := by rw [← hlv]; simp [specView]
        rw [eff_doh]
        show (dohView (l.getD _ defaultAttempt)).ctxDone = false
        rw [← getD_map_dohView, ← hl]
        exact h1.1
      · have hl : lv = l := by rw [← hlv]; exact specView_ne_doh k hk l
        rw [hl] at h1
        exact eff_ctxDone k (oracleOf l) _ h1.1 h1.2
    simp only [predict, this]
    simp
  have hF : (predict k (oracleOf l) obs).woke = true ∧ (predict k (oracleOf l) obs).leak = 0 := ⟨rfl, rfl⟩
  simp only [spec, hlv, specCore, Bool.and_eq_true]
  refine ⟨⟨⟨⟨⟨⟨⟨⟨⟨?_, ?_⟩, ?_⟩, ?_⟩, ?_⟩, ?_⟩, ?_⟩, ?_⟩, hF.1⟩, by simp [hF.2]⟩
  · simpa using hA
  · by_cases hpp : plainPrefix k lv = true
    · simp only [hpp, if_true]
      cases hq : freshFailureAt k.poolLim lv with
      | none => rfl
      | some j =>
        have := hB0 j hpp hq
        simp only [Bool.and_eq_true, Bool.not_eq_true']
        refine ⟨this.1, ?_⟩
        cases ha : (predict k (oracleOf l) obs).att with
        | none => rfl
        | some a => simpa using this.2 a ha
    · simp [hpp]
  · split
    · rename_i h
      exact hB h.1 h.2
    · rfl
  · split
    · rename_i h
      simp only [beq_iff_eq] at h
      exact hB3 h.1 h.2
    · rfl
  · split
    · rename_i h
      simp only [beq_iff_eq] at h
      exact hB2 h.1 h.2
    · rfl
  · cases hq : (predict k (oracleOf l) obs).att with
    | none => rfl
    | some a => simpa using hC a hq
  · cases hq : (predict k (oracleOf l) obs).dials with
    | none => rfl
    | some d => simpa using hD d hq
  · split
    · rename_i h; simpa using hE h
    · rfl

/-- the specification is not vacuous: it rejects a late return, a stale connection that was
    not survived, a second dial, an unbounded number of attempts, waiting out the deadline
    after a connection died, sleeping waiters and a leaked connection -/
example : spec .pipeline [⟨.fresh, none, true, none, false, false, false⟩] ⟨false, some 1, some 1, "late", true, 0⟩ = false := by decide
example : spec .reuse (List.replicate 9 ⟨.pooled, none, false, healthyDial, false, false, false⟩) ⟨false, some 7, some 0, "prompt", true, 0⟩ = false := by decide
example : spec .reuse (List.replicate 9 ⟨.pooled, none, false, healthyDial, false, false, false⟩) ⟨true, some 7, some 1, "prompt", true, 0⟩ = true := by decide
example : spec .reuse [⟨.pooled, none, false, none, false, false, false⟩, ⟨.fresh, some 1, false, healthyDial, false, false, false⟩] ⟨false, some 1, some 0, "prompt", true, 0⟩ = false := by decide
example : spec .reuse [⟨.pooled, none, false, none, false, false, false⟩, ⟨.fresh, some 1, false, healthyDial, false, false, false⟩] ⟨true, some 2, some 1, "prompt", true, 0⟩ = true := by decide
example : spec .pipeline [⟨.fresh, none, false, none, false, false, false⟩] ⟨false, some 2, some 2, "prompt", true, 0⟩ = false := by decide
example : spec .quic [⟨.fresh, none, false, none, false, false, false⟩] ⟨true, some 2, some 1, "prompt", true, 0⟩ = false := by decide
example : spec .quic [⟨.pooled, none, false, healthyDial, false, true, false⟩, ⟨.fresh, some 1, false, healthyDial, false, false, false⟩]
    ⟨false, none, some 0, "prompt", true, 0⟩ = false := by decide
example : spec .quic [⟨.pooled, none, false, healthyDial, false, true, false⟩, ⟨.fresh, some 1, false, healthyDial, false, false, false⟩]
    ⟨true, none, some 1, "prompt", true, 0⟩ = true := by decide
example : spec .quic [⟨.fresh, none, false, none, false, false, false⟩] ⟨false, some 1, some 1, "prompt", true, 0⟩ = true := by decide
example : spec .pipeline [⟨.pooled, none, false, none, false, false, false⟩] ⟨false, some 8, some 0, "prompt", true, 0⟩ = false := by decide
/-- DoH: a reused connection that died (h2) / a QUIC connection error (h3) with a healthy server must be
    survived; a bad response need not -/
example : spec .doh [⟨.pooled, none, false, healthyDial, false, false, false⟩, ⟨.fresh, some 1, false, healthyDial, false, false, false⟩]
    ⟨false, none, none, "prompt", true, 0⟩ = false := by decide
example : spec .doh [⟨.pooled, none, false, healthyDial, false, true, false⟩, ⟨.fresh, some 1, false, healthyDial, false, false, false⟩]
    ⟨false, none, none, "prompt", true, 0⟩ = false := by decide
example : spec .doh [⟨.pooled, none, false, healthyDial, false, false, true⟩, ⟨.fresh, some 1, false, healthyDial, false, false, false⟩]
    ⟨false, none, none, "prompt", true, 0⟩ = true := by decide
example : spec .pipeline [⟨.fresh, none, false, none, false, false, false⟩] ⟨false, some 1, some 1, "intime", true, 0⟩ = false := by decide
example : spec .pipeline [⟨.fresh, none, false, none, false, false, false⟩] ⟨false, some 1, some 1, "prompt", false, 0⟩ = false := by decide
example : spec .pipeline [⟨.fresh, none, false, none, false, false, false⟩] ⟨false, some 1, some 1, "prompt", true, 1⟩ = false := by decide

/-! ### tie: pinned source facts -/

set_option maxRecDepth 8000 in
/-- what surrounds the three loop conditions (the conditions themselves: tie by translation) -/
theorem pins :
    -- loop counters (the loop conditions and their bounds are tied by translation: Lemmas/TranslatedC14.lean,
    -- `pipelineLoop_translated`, `reuseLoop_translated`, `quicLoop_translated`, `dohLoop_translated`)
    Facts.c14_pipeRetryInit = "retry := 0" ∧ Facts.c14_reuseRetryInit = "retry := 0" ∧ Facts.c14_quicRetryInit = "retry := 0" ∧
    Facts.c14_pipeRetryIncs = 1 ∧ Facts.c14_reuseRetryIncs = 1 ∧ Facts.c14_quicRetryIncs = 1 ∧
    Facts.c14_pipeContinues = 1 ∧ Facts.c14_reuseContinues = 1 ∧ Facts.c14_quicContinues = 1 ∧
    -- pipeline loop body
    Facts.c14_pipeGet = "conn, newConn, err := t.getConn(ctx)" ∧
    Facts.c14_pipeGetConnBody = "{ c, newConn, err := t.pool.Get(ctx) if err != nil { return nil, false, err } return c.(*pipelineConn), newConn, nil }" ∧
    Facts.c14_pipeExchange = "resp, err := conn.exchange(ctx, m)" ∧ Facts.c14_pipeRelease = "t.releaseConn(conn)" ∧
    Facts.c14_pipeErrReturns = 2 ∧ Facts.c14_pipeOkReturn = "return resp, nil" ∧
    -- reuse loop body
    Facts.c14_reuseConnDecl = "var c *reusableConn" ∧
    Facts.c14_reuseGetIdle = "c, err = t.getIdleConn()" ∧ Facts.c14_reuseGetIdleCalls = 1 ∧
    Facts.c14_reuseDialCalls = 1 ∧ Facts.c14_reuseNilCond = "c == nil" ∧
    Facts.c14_reuseNewConnSet = "isNewConn = true" ∧ Facts.c14_reuseNewConnSets = 1 ∧
    Facts.c14_reuseDial = "c, err = t.asyncDial(ctx)" ∧
    Facts.c14_reuseExchange = "resp, err := t.exchangeConnCtx(ctx, payload, c)" ∧
    Facts.c14_reuseErrReturns = 3 ∧ Facts.c14_reuseOkReturn = "return resp, nil" ∧
    -- quic loop body
    Facts.c14_quicGet = "c, newConn, err := t.getConn(ctx)" ∧ Facts.c14_quicGetErrRet = "return nil, err" ∧
    Facts.c14_quicExchange = "b, err := t.exchangeConn(ctx, payload, c)" ∧ Facts.c14_quicReturn = "return b, err" := by
  decide

set_option maxRecDepth 8000 in
/-- tie: the connection-scoped cancel and the deadlines / time-outs the reading of the code depends on -/
theorem pins_waits :
    -- connection-scoped cancel
    Facts.c14_closeBody = "{ if err == nil { err = errPipelineConnClosed } c.m.Lock() if c.closed { c.m.Unlock() return } c.closed = true c.m.Unlock() c.cancelCause(err) go c.c.Close() debugLogTransportConnClosed(c.c, c.t.logger, err) }" ∧
    Facts.c14_closeCancel = "c.cancelCause(err)" ∧ Facts.c14_closeAsync = "go c.c.Close()" ∧
    Facts.c14_connCtxNew = "ctx, cancel := context.WithCancelCause(context.Background())" ∧
    Facts.c14_readErrCond = "err != nil" ∧ Facts.c14_readErrCloses = 1 ∧
    Facts.c14_readErrClose = "c.closeWithErr(fmt.Errorf(\"read err, %w\", err))" ∧
    Facts.c14_udpWriteErrClose = "c.closeWithErr(fmt.Errorf(\"write err, %w\", err))" ∧
    Facts.c14_writeErrClose = "c.closeWithErr(fmt.Errorf(\"write err, %w\", err))" ∧
    Facts.c14_reuseReleaseErr = "rc.close()" ∧
    -- deadlines
    Facts.c14_readDeadline = "c.c.SetReadDeadline(time.Now().Add(idleTimeout))" ∧
    Facts.c14_idleTimeoutSrc = "idleTimeout := c.t.connIdleTimeout()" ∧
    Facts.c14_exchangeWrite = "err = c.write(ctx, m, qid)" ∧ Facts.c14_writeCallsTCP = "err = c.writeTCP(ctx, b)" ∧
    Facts.c14_writeDdlSrc = "ddl, _ := ctx.Deadline()" ∧ Facts.c14_writeDeadline = "c.c.SetWriteDeadline(ddl)" ∧
    Facts.c14_writeUnlock = "defer func() { <-c.wm }()" ∧
    Facts.c14_reuseQueryTimeout = 6000000000 ∧ Facts.c14_reuseRespTimeout = "respTimeout := reuseConnQueryTimeout" ∧
    Facts.c14_reuseDeadline = "c.c.SetDeadline(time.Now().Add(respTimeout))" ∧
    Facts.c14_reuseWorker = "resp, err := t.exchangeConn(payloadCopy, c)" ∧
    Facts.c14_reuseResChan = "resChan := make(chan res, 1)" ∧
    Facts.c14_reuseDialCtx = "dialCtx, cancelDial := context.WithTimeout(t.ctx, t.dialTimeout())" ∧
    Facts.c14_dohTimeout = 6000000000 ∧
    Facts.c14_dohInnerCtx = "ctx, cancel := context.WithTimeout(context.Background(), defaultDoHTimeout)" ∧
    Facts.c14_dohResChan = "resChan := make(chan res, 1)" ∧ Facts.c14_quicRc = "rc := make(chan res, 1)" ∧
    Facts.c14_quicDialCtx = "ctx, cancel := context.WithTimeout(t.ctx, t.dialTimeout())" ∧
    Facts.c14_pipeDialCtx = "ctx, cancel := context.WithTimeout(ctx, t.dialTimeout())" ∧
    Facts.c14_idleDefault = 10000000000 ∧ Facts.c14_dialDefault = 5000000000 := by decide

end MosVerif.C14
