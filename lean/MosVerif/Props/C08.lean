/-
  C08 — Cached answers age correctly and expire on time.
  Model: MosVerif/Model/Ttl.lean, helper lemmas: MosVerif/Lemmas/Ttl.lean.
-/
import MosVerif.Lemmas.TranslatedC08
import MosVerif.Lemmas.Ttl
import MosVerif.Lemmas.TtlHist
import MosVerif.Lemmas.TtlSpec
import MosVerif.Lemmas.RedisCache
import MosVerif.Lemmas.StoreRace
import MosVerif.Generated.Facts
namespace MosVerif.C08
open MosVerif.Ttl

/-! ### the lifetime policy -/

/-- `time.Duration(u) * time.Second` never overflows int64, for every uint32 `u` (2³²·10⁹ < 2⁶³). -/
theorem minTTL_duration_no_overflow (u : UInt32) : durOfSeconds u = (u.toNat : Int) * second :=
  durOfSeconds_eq u

/-- ★ The lifetime `cacheCtl.Store` gives to a response, for every message and every configured maximum whose
    seconds·10⁹ fit int64: at least 1 s; at most the configured maximum (6 h when the setting is ≤ 0); at most
    30 s for NXDOMAIN; exactly 1 s for SERVFAIL; at most 5 s for the other error codes; at most 30 s for an answer
    without records; at most the smallest record TTL when there are records (1 s when that TTL is 0). -/
theorem lifetime_bounds (m : Msg) (cfgMax : Int) (h1 : -9223372037 < cfgMax) (h2 : cfgMax < 9223372037) :
    second ≤ storeTtl m (initMaxTtl cfgMax) ∧
    storeTtl m (initMaxTtl cfgMax) ≤ initMaxTtl cfgMax ∧
    (cfgMax ≤ 0 → storeTtl m (initMaxTtl cfgMax) ≤ 21600 * second) ∧
    (0 < cfgMax → storeTtl m (initMaxTtl cfgMax) ≤ cfgMax * second) ∧
    (m.rcode = 3 → storeTtl m (initMaxTtl cfgMax) ≤ 30 * second) ∧
    (m.rcode = 2 → storeTtl m (initMaxTtl cfgMax) = second) ∧
    (m.rcode ≠ 0 → m.rcode ≠ 2 → m.rcode ≠ 3 → storeTtl m (initMaxTtl cfgMax) ≤ 5 * second) ∧
    ((getMinimalTTL m).2 = false → storeTtl m (initMaxTtl cfgMax) ≤ 30 * second) ∧
    ((getMinimalTTL m).2 = true → 1 ≤ (getMinimalTTL m).1.toNat →
        storeTtl m (initMaxTtl cfgMax) ≤ (getMinimalTTL m).1.toNat * second) ∧
    ((getMinimalTTL m).2 = true → (getMinimalTTL m).1.toNat = 0 → storeTtl m (initMaxTtl cfgMax) = second) :=
  lifetimeBounds m cfgMax h1 h2

/-- whatever is configured, no lifetime exceeds ten years (`maxCacheTtlLimit`, so that otter's uint32 second clock
    cannot wrap): lifetime = min(policy ttl, min(configured maximum, 10 y)) -/
theorem lifetime_le_ten_years (m : Msg) (cfgMax : Int) (h1 : -9223372037 < cfgMax) (h2 : cfgMax < 9223372037) :
    storeTtl m (initMaxTtl cfgMax) ≤ 315360000 * second ∧ initMaxTtl cfgMax ≤ 315360000 * second ∧
    (0 < cfgMax → cfgMax ≤ 315360000 → initMaxTtl cfgMax = cfgMax * second) := by
  obtain ⟨hc1, hc2, -, -, -, hc6⟩ := initMaxTtl_bounds cfgMax h1 h2
  have := (lifetimeBounds m cfgMax h1 h2).2.1
  refine ⟨by omega, hc2, ?_⟩
  intro hp hle
  rcases hc6 hp with h | h
  · exact h
  · have := (initMaxTtl_bounds cfgMax h1 h2).2.2.2.2.1 hp
    unfold second at *; omega

/-- the floor and the cap alone: for any positive cap the result is positive and at most the cap -/
theorem storeTtl_range (m : Msg) (cap : Int) (hc : 0 < cap) :
    0 < storeTtl m cap ∧ storeTtl m cap ≤ cap := by
  rw [storeTtl_eq]
  generalize baseTtl m.rcode (getMinimalTTL m).1.toNat (getMinimalTTL m).2 = B
  unfold clampTtl second
  simp only
  split <;> split <;> omega

example : storeTtl ⟨0, false, [⟨1, 300⟩, ⟨1, 20⟩], [], [⟨41, 0⟩]⟩ (initMaxTtl 0) = 20 * second := by decide
example : storeTtl ⟨0, false, [⟨1, 4294967295⟩], [], []⟩ (initMaxTtl 0) = 21600 * second := by decide
example : storeTtl ⟨3, false, [], [⟨6, 3600⟩], []⟩ (initMaxTtl 10) = 10 * second := by decide

/-! ### what is never stored -/

/-- ★ Truncated responses, nil responses and failed exchanges never reach the backend:
    `Store` returns before the backend call, and the miss path of `handleReq` returns before `Store`. -/
theorem tc_and_failures_never_stored :
    (∀ b m cap, m.tc = true → store b (some m) cap = none) ∧
    (∀ b cap, store b none cap = none) ∧
    (∀ r cap, store false r cap = none) ∧
    (∀ clock cfg mem k m now delay id, m.tc = true → cacheStore clock cfg mem k (some m) now delay id = mem) ∧
    (∀ clock cfg mem k now delay id, cacheStore clock cfg mem k none now delay id = mem) ∧
    (∀ clock cfg mem k now delay id,
        cacheGet clock mem k now = none → handleQuery clock cfg mem k .err now delay id = (mem, .failed)) ∧
    (∀ clock cfg mem k m now delay id,
        cacheGet clock mem k now = none → (removeEDNS0 m).tc = true →
        (handleQuery clock cfg mem k (.reply m) now delay id).1 = mem) := by
  refine ⟨?_, ?_, ?_, ?_, ?_, ?_, ?_⟩
  · intro b m cap h; cases b <;> simp [store, h]
  · intro b cap; cases b <;> simp [store]
  · intro r cap; simp [store]
  · intro clock cfg mem k m now delay id h
    cases hb : cfg.hasBackend <;> simp [cacheStore, store, h, hb]
  · intro clock cfg mem k now delay id
    cases hb : cfg.hasBackend <;> simp [cacheStore, store, hb]
  · intro clock cfg mem k now delay id h; simp [handleQuery, h]
  · intro clock cfg mem k m now delay id h htc
    cases hb : cfg.hasBackend <;> simp [handleQuery, h, cacheStore, store, htc, hb]

/-! ### error responses never displace an entry -/

/-- ★ An error response (rcode ≠ 0) is stored set-if-absent: if the key has a live node (one that is not expired
    on the cache clock when the Store runs) — in particular a live positive entry — `Store` changes nothing at all,
    so every later lookup sees exactly what it saw before. (An expired leftover does not count: MemoryCache.Store
    removes it and stores the error response.) -/
theorem negative_never_displaces_live_positive (clock : Nat → Nat) (cfg : Cfg) (mem : Mem) (k : Nat) (m : Msg)
    (now delay id : Nat) (e : Entry) (hneg : m.rcode ≠ 0) (hpres : mem k = some e)
    (hlive : clock (now + delay) < e.expTick) :
    cacheStore clock cfg mem k (some m) now delay id = mem ∧
    ∀ t, cacheGet clock (cacheStore clock cfg mem k (some m) now delay id) k t = cacheGet clock mem k t := by
  have h := cacheStore_neg_present clock cfg mem k m now delay id e hneg hpres hlive
  exact ⟨h, fun t => by rw [h]⟩

/-- an expired leftover is replaced (otter keeps expired nodes in its map; they must not block error responses) -/
example :
    let clock : Nat → Nat := fun t => t / G
    let cfg : Cfg := ⟨true, initMaxTtl 0⟩
    let mem1 := cacheStore clock cfg Mem.empty 7 (some ⟨0, false, [⟨1, 1⟩], [], []⟩) 0 0 1
    let mem2 := cacheStore clock cfg mem1 7 (some ⟨3, false, [], [], []⟩) (2 * G) 0 2
    ((cacheGet clock mem2 7 (3 * G)).map (fun p => p.2.id)) = some 2 := by decide

/-- by contrast a positive response (rcode 0) is stored with Set and replaces whatever is there -/
theorem positive_replaces (clock : Nat → Nat) (cfg : Cfg) (mem : Mem) (k : Nat) (m : Msg) (now delay id : Nat)
    (hb : cfg.hasBackend = true) (htc : m.tc = false) (hpos : m.rcode = 0) :
    ∃ e, cacheStore clock cfg mem k (some m) now delay id k = some e ∧ e.msg = m ∧ e.id = id ∧ e.stored = now :=
  cacheStore_pos clock cfg mem k m now delay id hb htc hpos

/-- non-vacuity: a live positive entry, an NXDOMAIN for the same key, the entry is still served -/
example :
    let clock : Nat → Nat := fun t => t / G
    let cfg : Cfg := ⟨true, initMaxTtl 0⟩
    let pos : Msg := ⟨0, false, [⟨1, 60⟩], [], []⟩
    let neg : Msg := ⟨3, false, [], [], []⟩
    let mem1 := cacheStore clock cfg Mem.empty 7 (some pos) 0 0 1
    let mem2 := cacheStore clock cfg mem1 7 (some neg) (5 * G) 0 2
    ((cacheGet clock mem2 7 (10 * G)).map (fun p => (p.2.id, p.1.ans))) = some (1, [⟨1, 50⟩]) := by decide

/-! ### served TTLs -/

/-- the records of the served copy are the stored records, aged one by one -/
theorem served_rrs (m : Msg) (d : UInt32) : (subtractTTL m d).rrs = m.rrs.map (subRR d) := by
  simp [subtractTTL, Msg.rrs]

/-- ★ A cache hit `elapsed` nanoseconds after the fetch serves the stored records in the stored order; every
    record that is not an OPT pseudo record carries exactly `max 1 (orig − ⌊elapsed / 1 s⌋)` — for all uint32 TTLs,
    0 and 2³²−1 included, without wrap-around; OPT records are untouched. (elapsed < 2³² s ≈ 136 years.) -/
theorem served_ttl_le (clock : Nat → Nat) (mem : Mem) (k now : Nat) (served : Msg) (e : Entry)
    (hget : cacheGet clock mem k now = some (served, e)) (hel : (now - e.stored) / G < 4294967296) :
    served.rrs.length = e.msg.rrs.length ∧
    ∀ i (hi : i < e.msg.rrs.length) (hi' : i < served.rrs.length),
      (served.rrs[i]).typ = (e.msg.rrs[i]).typ ∧
      ((e.msg.rrs[i]).typ ≠ typeOPT →
        (served.rrs[i]).ttl.toNat = Nat.max 1 ((e.msg.rrs[i]).ttl.toNat - (now - e.stored) / G)) ∧
      ((e.msg.rrs[i]).typ = typeOPT → served.rrs[i] = e.msg.rrs[i]) := by
  unfold cacheGet at hget
  cases ho : otterGet mem (clock now) k with
  | none => simp [ho] at hget
  | some e' =>
    simp [ho] at hget
    obtain ⟨hs, he⟩ := hget
    subst he
    have hd : (elapsedDelta (now - e'.stored)).toNat = (now - e'.stored) / G := by
      unfold elapsedDelta
      rw [UInt32.toNat_ofNat']
      exact Nat.mod_eq_of_lt hel
    subst hs
    rw [served_rrs]
    refine ⟨by simp, ?_⟩
    intro i hi hi'
    simp only [List.getElem_map]
    by_cases hopt : (e'.msg.rrs[i]).typ = typeOPT
    · rw [subRR_opt _ _ hopt]; exact ⟨rfl, fun h => absurd hopt h, fun _ => rfl⟩
    · have := subRR_real (elapsedDelta (now - e'.stored)) (e'.msg.rrs[i]) hopt
      rw [hd] at this
      exact ⟨this.1, fun _ => this.2, fun h => absurd h hopt⟩

example : (subRR 5 ⟨1, 0⟩).ttl = 1 ∧ (subRR 5 ⟨1, 5⟩).ttl = 1 ∧ (subRR 5 ⟨1, 6⟩).ttl = 1 ∧
    (subRR 5 ⟨1, 4294967295⟩).ttl = 4294967290 ∧ (subRR 4294967295 ⟨1, 4294967295⟩).ttl = 1 ∧
    (subRR 5 ⟨41, 3⟩).ttl = 3 := by decide

/-! ### expiry -/

/-- ★ For every history — any sequence of Store calls, lookups, client queries and evictions, from the empty
    cache — and every cache clock that is never ahead of real time and less than one tick behind it:
    whatever a lookup or a client query is served at time `t` comes from a node whose stored message is not
    truncated, whose `expire − stored` is exactly the policy's lifetime for that message (bounded by
    `lifetime_bounds`), with `t < stored + lifetime + 2 s`, and the served copy is the stored message aged by
    the whole seconds elapsed. -/
theorem not_served_after (clock : Nat → Nat) (off : Nat) (cfg : Cfg) (hclk : ClockOK clock off)
    (hcap : 0 < cfg.maximumTtl) (steps : List Step) (hp : ∀ s ∈ steps, s.prompt) (id : Nat) :
    AllObsOK cfg off steps (runFrom clock cfg Mem.empty id steps).2 :=
  (run_sound clock off cfg hclk hcap steps Mem.empty id hp (inv_empty cfg off)).2

/-- the same for one lookup on any reachable state, in the contrapositive form of the property:
    2 s after the end of the lifetime the lookup misses -/
theorem miss_after_lifetime (clock : Nat → Nat) (off : Nat) (cfg : Cfg) (hclk : ClockOK clock off) (mem : Mem)
    (hinv : Inv cfg off mem) (k now : Nat)
    (hlate : ∀ e, mem k = some e → (e.stored : Int) + storeTtl e.msg cfg.maximumTtl + 2 * G ≤ now) :
    cacheGet clock mem k now = none := by
  cases hg : cacheGet clock mem k now with
  | none => rfl
  | some p =>
    obtain ⟨served, e⟩ := p
    obtain ⟨hm, hl, -⟩ := cacheGet_some _ _ _ _ _ _ hg
    have he := hinv k e hm
    have h1 := hit_before_expiry clock off cfg e now hclk he hl
    have h2 := hlate e hm
    have h3 := he.life
    simp only [G] at *
    omega

/-- the invariant holds in every reachable state -/
theorem reachable_inv (clock : Nat → Nat) (off : Nat) (cfg : Cfg) (hclk : ClockOK clock off)
    (hcap : 0 < cfg.maximumTtl) (steps : List Step) (hp : ∀ s ∈ steps, s.prompt) (id : Nat) :
    Inv cfg off (runFrom clock cfg Mem.empty id steps).1 :=
  (run_sound clock off cfg hclk hcap steps Mem.empty id hp (inv_empty cfg off)).1

/-- non-vacuity: the clock assumption is satisfiable (an exact clock, the harness' clock), and an entry with a
    3 s lifetime stored at 0.9 s is served at 2.95 s (age 2 s) and is gone at 3.0 s (otter expires up to one
    tick early, never late), well before 3.9 s + 2 s. -/
example : ClockOK (fun t => t / G) 0 := clockOK_exact 0
example : ClockOK histClock (500 * msNs) := clockOK_hist
example :
    let clock : Nat → Nat := fun t => t / G
    let cfg : Cfg := ⟨true, initMaxTtl 0⟩
    let mem := cacheStore clock cfg Mem.empty 7 (some ⟨0, false, [⟨1, 3⟩], [], []⟩) 900000000 0 1
    ((cacheGet clock mem 7 2950000000).map (fun p => p.1.ans)) = some [⟨1, 1⟩] ∧
    (cacheGet clock mem 7 3000000000).isNone = true := by decide

/-! ### expiry with the redis backend (and both backends) -/

/-- ★ Both backends. For every history — Store calls, lookups, client queries, evictions in either backend, and
    redis applying each queued SET at ANY later instant or never (`apply t`, `drop`: the proxy's own queue, a slow
    or blocked server) — every configuration (memory only, redis only, both), every maximum that is a whole number
    of seconds, and every cache clock within one tick of real time: whatever is served at time `t` comes from an
    entry/value whose message is not truncated, whose carried `expire − stored` is exactly the policy's lifetime
    of that message (bounded by `lifetime_bounds`), with `t < stored + lifetime + 2 s` (from redis even
    `t < expire`: the carried expire time decides, not redis' own ttl), and it is the stored message aged by the
    whole seconds since `stored` — for a redis value the fetch instant cut to a whole Unix second, so it never
    looks younger than it is. -/
theorem not_served_after_both (clock : Nat → Nat) (off : Nat) (cfg : RedisCache.RCfg) (hcfg : RedisCache.RCfgOK cfg)
    (hclk : ClockOK clock off) (steps : List RedisCache.RStep) (hp : ∀ s ∈ steps, s.prompt) (id : Nat) :
    RedisCache.RAllObsOK cfg.maximumTtl steps (RedisCache.rRunFrom clock cfg RedisCache.RState.empty id steps).2 :=
  (RedisCache.rRun_sound clock off cfg hcfg hclk steps RedisCache.RState.empty id hp (RedisCache.rinv_empty cfg off)).2

/-- the configurations the router can have satisfy the hypothesis on the maximum -/
theorem redis_cfg_ok (mem red : Bool) (cfgMax : Int) (h1 : -9223372037 < cfgMax) (h2 : cfgMax < 9223372037) :
    RedisCache.RCfgOK ⟨mem, red, initMaxTtl cfgMax⟩ := RedisCache.rcfgOK_init mem red cfgMax h1 h2

/-- a hit of the redis path in one step: never at or after the expire time the value carries, however long redis
    itself keeps the key -/
theorem redis_hit_before_expire (clock : Nat → Nat) (cfg : RedisCache.RCfg) (st : RedisCache.RState) (k now : Nat)
    (v : RedisCache.RVal) (hmiss : cfg.hasMem = false) (hv : st.redis k = some v) (hlate : v.expire ≤ now) :
    (RedisCache.rGet clock cfg st k now).2 = none := by
  have : ¬ (now < v.gone ∧ now < v.expire) := by omega
  cases hr : cfg.hasRedis <;> simp [RedisCache.rGet, hmiss, hr, hv, this]

/-- non-vacuity (audit hunt-D finding 7): ttl 1 stored at 0.3 s; the SET (PX 999) is applied 2.6 s late, so redis
    has the key from 2.9 s to 3.9 s; a lookup at 3.6 s misses, one at 0.9 s (value applied at once) hits. -/
example :
    let cfg : RedisCache.RCfg := ⟨false, true, initMaxTtl 0⟩
    let clock : Nat → Nat := fun t => t / G
    let st1 := RedisCache.rStore clock cfg RedisCache.RState.empty 7 (some ⟨0, false, [⟨1, 1⟩], [], []⟩) 300000000 0 1
    let late := RedisCache.rApply st1 2900000000
    let prompt := RedisCache.rApply st1 300000000
    (RedisCache.rGet clock cfg late 7 3600000000).2.isNone = true ∧
    ((RedisCache.rGet clock cfg prompt 7 900000000).2.map (fun p => p.1.ans)) = some [⟨1, 1⟩] ∧
    (late.redis 7).map (fun v => (v.expire, v.gone)) = some (1000000000, 3900000000) := by decide

/-! ### the executable specification accepts the model -/

/-- ★ (ttlpolicy/store) the model's "Store, then Get at once" outcome satisfies the executable specification,
    for every response, backend presence and configured maximum (seconds·10⁹ within int64). -/
theorem store_model_meets_spec (hasBackend : Bool) (cfgMax : Int) (h1 : -9223372037 < cfgMax)
    (h2 : cfgMax < 9223372037) (m : Msg) : specStore hasBackend cfgMax m (modelStore hasBackend cfgMax m) = true := by
  unfold modelStore
  simp only
  cases hg : cacheGet (fun t => t / 1000000000)
      (cacheStore (fun t => t / 1000000000) ⟨hasBackend, initMaxTtl cfgMax⟩ Mem.empty 0 (some m) 0 0 1) 0 0 with
  | none => rfl
  | some p =>
    obtain ⟨served, e⟩ := p
    obtain ⟨hm, -, hs⟩ := cacheGet_some _ _ _ _ _ _ hg
    unfold cacheStore at hm
    cases hst : store hasBackend (some m) (initMaxTtl cfgMax) with
    | none => simp [hst, Mem.empty] at hm
    | some c =>
      obtain ⟨hb, htc, hmsg, httl, -⟩ := store_some _ _ _ _ hst
      have hspec := storeTtl_le_spec m cfgMax h1 h2
      have hpos := (lifetime_bounds m cfgMax h1 h2).1
      simp only [hst, otterSet, Mem.empty] at hm
      have he : e.msg = m ∧ e.stored = 0 ∧ e.expire = (c.ttl).toNat := by
        cases hnx : c.setNX <;> simp [hnx, Mem.set] at hm <;> subst hm <;> simp [hmsg]
      obtain ⟨e1, e2, e3⟩ := he
      simp only [specStore, hb, htc, Bool.not_false, Bool.true_and, Bool.and_eq_true]
      refine ⟨?_, ?_⟩
      · unfold specLifeOK
        rw [e2, e3, httl]
        simp only [decide_eq_true_eq]
        unfold second at hpos
        omega
      · rw [hs, e1]
        exact specServed_sub m _ 0 (Nat.zero_le _)

example : modelStore true 0 ⟨0, false, [⟨1, 7⟩], [], []⟩ = some (7000000000, ⟨0, false, [⟨1, 7⟩], [], []⟩) := by decide
/-- the specification is not vacuous: it rejects too long a life, a cached TC answer and an un-aged TTL of 0 -/
example : specStore true 0 ⟨2, false, [], [], []⟩ (some (2000000000, ⟨2, false, [], [], []⟩)) = false := by decide
example : specStore true 0 ⟨0, true, [⟨1, 7⟩], [], []⟩ (some (7000000000, ⟨0, true, [⟨1, 7⟩], [], []⟩)) = false := by decide
example : specStore true 5 ⟨0, false, [⟨1, 7⟩], [], []⟩ (some (7000000000, ⟨0, false, [⟨1, 7⟩], [], []⟩)) = false := by decide
example : specStore true 0 ⟨0, false, [⟨1, 7⟩], [], []⟩ (some (7000000000, ⟨0, false, [⟨1, 8⟩], [], []⟩)) = false := by decide

/-- ★ (ttlpolicy/subttl) SubtractTTL's result satisfies the specification for every message and delta -/
theorem subttl_model_meets_spec (m : Msg) (d : UInt32) : specServed d.toNat m (subtractTTL m d) = true :=
  specServed_sub m d d.toNat (Nat.le_refl _)

example : specServed 5 ⟨0, false, [⟨1, 7⟩], [], []⟩ ⟨0, false, [⟨1, 3⟩], [], []⟩ = false := by decide
/-- a wrapped subtraction would be rejected -/
example : specServed 9 ⟨0, false, [⟨1, 7⟩], [], []⟩ ⟨0, false, [⟨1, 4294967294⟩], [], []⟩ = false := by decide

/-- ★ (ttlpolicy/minttl) GetMinimalTTL returns the smallest TTL among the non-OPT records, and (0,false) when
    there is none -/
theorem minttl_model_meets_spec (m : Msg) : specMin m (getMinimalTTL m) = true := getMinimalTTL_spec m

example : specMin ⟨0, false, [⟨1, 7⟩, ⟨41, 2⟩], [], [⟨1, 9⟩]⟩ (2, true) = false := by decide

/-- ★ (ttlpolicy/hist) For every history of harness events (Store, Store(nil), lookup, client query with any
    upstream outcome; any keys, messages, planned times in order, below 31 years) and every configured maximum: the
    observations of the model satisfy the executable specification written from the property text — provenance
    (only fetched, non-truncated responses are ever served), lifetime bound, "not served after lifetime + 2 s",
    aged TTLs, and "an error response never displaces a live positive entry". -/
theorem hist_model_meets_spec (cfgMax : Int) (h1 : -9223372037 < cfgMax) (h2 : cfgMax < 9223372037)
    (evs : List Ev) (hsorted : sortedEvs evs = true) (hshort : shortEvs evs = true)
    (hkinds : ∀ e ∈ evs, e.kind ≤ 3) :
    specHist cfgMax evs (modelHist cfgMax evs) = true := by
  unfold specHist modelHist
  exact run_spec cfgMax h1 h2 evs hsorted hshort hkinds evs 0 Mem.empty (hinv_start cfgMax evs) (by intro i; simp)

/-- the specification of histories is not vacuous: it rejects an entry served 3 s after a 1 s lifetime, an
    NXDOMAIN that displaced a live positive entry, a cached answer to a failed exchange, an un-aged TTL -/
example : specHist 0 [⟨0, 0, 1, .reply ⟨0, false, [⟨1, 1⟩], [], []⟩⟩, ⟨3500, 2, 1, .err⟩]
    [.none, .hit ⟨0, 1000000000, 0, ⟨0, false, [⟨1, 1⟩], [], []⟩, 1⟩ ⟨0, false, [⟨1, 1⟩], [], []⟩] = false := by decide
example : specHist 0 [⟨0, 0, 1, .reply ⟨0, false, [⟨1, 60⟩], [], []⟩⟩, ⟨0, 0, 1, .reply ⟨3, false, [], [], []⟩⟩, ⟨0, 2, 1, .err⟩]
    [.none, .none, .hit ⟨0, 30000000000, 0, ⟨3, false, [], [], []⟩, 2⟩ ⟨3, false, [], [], []⟩] = false := by decide
example : specHist 0 [⟨0, 3, 1, .err⟩, ⟨0, 2, 1, .err⟩]
    [.q .failed, .hit ⟨0, 1000000000, 0, ⟨2, false, [], [], []⟩, 0⟩ ⟨2, false, [], [], []⟩] = false := by decide
example : specHist 0 [⟨0, 0, 1, .reply ⟨0, false, [⟨1, 60⟩], [], []⟩⟩, ⟨2300, 2, 1, .err⟩]
    [.none, .hit ⟨0, 60000000000, 0, ⟨0, false, [⟨1, 60⟩], [], []⟩, 1⟩ ⟨0, false, [⟨1, 60⟩], [], []⟩] = false := by decide
example : specHist 0 [⟨0, 0, 1, .reply ⟨0, false, [⟨1, 60⟩], [], []⟩⟩, ⟨2300, 2, 1, .err⟩]
    [.none, .hit ⟨0, 60000000000, 0, ⟨0, false, [⟨1, 60⟩], [], []⟩, 1⟩ ⟨0, false, [⟨1, 58⟩], [], []⟩] = true := by decide

/-! ### tie: pinned source facts -/

/-- Source pins: what the translated fragments do not carry (call targets, statement order, nil-ness tests, field
    assignments). The integer / boolean logic of `initCache`'s maximum, of `Store`'s lifetime switch, floor and cap,
    of `msgRrMinTtl`, `negativeResp` and AsyncStore's `ttlMs <= 10` is tied by translation instead
    (Lemmas/TranslatedC08.lean: `c08_initMaxTtl_translated`, `Store_ttl_translated`, `c08_minDur_translated`,
    `c08_negativeResp_translated`, `c08_redisTtlTooShort_translated`), and so are the loop bodies of GetMinimalTTL /
    SubtractTTL (`c08_minStep_translated`, `c08_subRR_translated`) and `expireTime := now.Add(ttl)`,
    `time.Until(expireTime)`, `ttlMs` (`c08_expireAt_translated`, `c08_memUntil_translated`, `c08_redisTtlMs_translated`). -/
theorem pins :
    Facts.ttl_defaultMaxCacheTtl = 21600000000000 ∧
    Facts.ttl_noBackendCond = "c.memory == nil && c.redis == nil" ∧
    Facts.ttl_skipCond = "resp == nil || resp.Header.Truncated" ∧
    Facts.ttl_minCall = "u, hasRr := dnsutils.GetMinimalTTL(resp)" := by
  refine ⟨?_, ?_, ?_, ?_⟩ <;> rfl

/-- (continued) -/
theorem pins_3 :
    Facts.ttl_storedAssign = "storedTime := now" ∧
    Facts.ttl_memStoreCall = "c.memory.Store(k, storedTime, expireTime, v, negativeResp)" ∧
    Facts.ttl_getSubtract = "dnsutils.SubtractTTL(m, uint32(time.Since(storedTime).Seconds()))" ∧
    Facts.ttl_memSetNXCond = "setNX" := by
  refine ⟨?_, ?_, ?_, ?_⟩ <;> rfl

/-- (continued) -/
theorem pins_4 :
    Facts.ttl_memSetIfAbsent = "ok := c.backend.SetIfAbsent(ks, e, ttl)" ∧
    Facts.ttl_memSet = "if !c.backend.Set(ks, e, ttl) { releaseEntry(e) }" ∧
    Facts.ttl_memStoredField = "e.storedTime = storedTime" ∧
    Facts.ttl_memExpireField = "e.expireTime = expireTime" ∧
    Facts.ttl_minInit = "minTTL := ^uint32(0)" ∧
    Facts.ttl_minNoRecord = "if !hasRecord { return 0, false }" := by
  refine ⟨?_, ?_, ?_, ?_, ?_, ?_⟩ <;> rfl

/-- (continued) -/
theorem pins_5 :
    Facts.ttl_minSections = 1 ∧
    Facts.ttl_subSections = 1 ∧
    Facts.ttl_typeOPT = typeOPT ∧
    Facts.ttl_rcodeSuccess = 0 ∧
    Facts.ttl_rcodeServFail = 2 ∧
    Facts.ttl_rcodeNX = 3 := by
  refine ⟨?_, ?_, ?_, ?_, ?_, ?_⟩ <;> rfl

/-- (continued) -/
theorem pins_6 :
    Facts.ttl_missStore = "r.cache.Store(q, rc.RemoteAddr.Addr(), resp)" ∧
    Facts.ttl_storeCallsInHandle = 1 ∧
    Facts.ttl_missErrReturn = "if err != nil { r.logger.Warn(). Str(\"upstream\", upstream.tag). Err(err). Msg(\"failed to forward query\") makeEmptyResp(q, rc, uint16(dnsmsg.RCodeServerFailure)) return }" ∧
    Facts.ttl_prefetchErrReturn = "if err != nil { r.logger.Warn().Object(\"query\", (*qLogObj)(q)).Str(\"upstream\", u.tag).Err(err). Msg(\"failed to prefetch\") return }" := by
  refine ⟨?_, ?_, ?_, ?_⟩ <;> rfl

/-- (continued) the repairs of the audit: a refused set-if-absent is retried over an expired leftover, entries are
    not recycled, the maximum is limited to ten years -/
theorem pins_7 :
    Facts.ttl_memRetryGuard = "!ok" ∧
    Facts.ttl_memRetry = "if _, alive := c.backend.Get(ks); !alive { c.backend.Delete(ks) ok = c.backend.SetIfAbsent(ks, e, ttl) }" ∧
    Facts.ttl_memNewEntry = "{ return new(cacheEntry) }" ∧
    Facts.ttl_memReleasePool = 0 ∧
    Facts.ttl_maxLimit = 315360000000000000 := by
  refine ⟨?_, ?_, ?_, ?_, ?_⟩ <;> rfl

/-- (continued) the redis path and forward's RemoveEDNS0 -/
theorem pins_8 :
    Facts.ttl_redisHitCond = "v != nil && time.Now().Before(expireTime)" ∧
    Facts.ttl_redisGetCall = "storedTime, expireTime, v = c.redis.Get(ctx, key)" ∧
    Facts.ttl_redisFill = "c.memory.Store(key, storedTime, expireTime, v, true)" ∧
    Facts.ttl_redisSubtract = "dnsutils.SubtractTTL(m, uint32(time.Since(storedTime).Seconds()))" ∧
    Facts.ttl_redisStoreCall = "c.redis.AsyncStore(k, storedTime, expireTime, v, negativeResp)" := by
  refine ⟨?_, ?_, ?_, ?_, ?_⟩ <;> rfl

/-- (continued) -/
theorem pins_9 :
    Facts.ttl_redisValStored = "binary.BigEndian.PutUint64(b, uint64(storedTime.Unix()))" ∧
    Facts.ttl_redisValExpire = "binary.BigEndian.PutUint64(b[8:], uint64(expireTime.Unix()))" ∧
    Facts.ttl_redisGetStored = "storedTime = time.Unix(int64(binary.BigEndian.Uint64(b[:8])), 0)" ∧
    Facts.ttl_redisGetExpire = "expireTime = time.Unix(int64(binary.BigEndian.Uint64(b[8:16])), 0)" ∧
    Facts.ttl_removeOptBody = "{ n := 0 for _, r := range rs { if r.Hdr().Type == TypeOPT { ReleaseResource(r) continue } rs[n] = r n++ } for i := n; i < len(rs); i++ { rs[i] = nil } return rs[:n] }" ∧
    Facts.ttl_removeEDNS0Body = "{ m.Answers = removeOpt(m.Answers) m.Authorities = removeOpt(m.Authorities) m.Additionals = removeOpt(m.Additionals) }" ∧
    Facts.ttl_forwardRemove = "dnsmsg.RemoveEDNS0(resp)" := by
  refine ⟨?_, ?_, ?_, ?_, ?_, ?_, ?_⟩ <;> rfl

/-- the model's constants are the pinned ones -/
theorem pins_model : (Facts.ttl_defaultMaxCacheTtl : Int) = defaultMaxCacheTtl ∧
    (Facts.ttl_maxLimit : Int) = maxCacheTtlLimit := by decide

/-! ### concurrency of two stores of one key (Model/StoreRace: every backend call is a step of its own) -/

/-- ★ an error response never displaces a live positive entry, for every interleaving: a plain (positive) store
    and a set-if-absent (error) store of one key run concurrently over whatever the backend held before
    (nothing, an expired leftover, a live entry); when both have returned the key holds the positive value.
    This is what licenses the other cache models to treat the backend calls of one `Store` as one atomic step. -/
theorem concurrent_negative_never_displaces (s0 : StoreRace.Slot) (sched : List Bool)
    (hf : StoreRace.finished (StoreRace.run true sched (StoreRace.init s0)) = true) :
    (StoreRace.run true sched (StoreRace.init s0)).slot = .live .p :=
  StoreRace.locked_final_is_plain s0 sched hf

/-- ★ and the end state is that of both serial orders (serializability of the two stores) -/
theorem concurrent_stores_serializable (s0 : StoreRace.Slot) (sched : List Bool)
    (hf : StoreRace.finished (StoreRace.run true sched (StoreRace.init s0)) = true) :
    (StoreRace.run true sched (StoreRace.init s0)).slot = (StoreRace.serialPN true s0).slot ∧
    (StoreRace.run true sched (StoreRace.init s0)).slot = (StoreRace.serialNP true s0).slot :=
  StoreRace.locked_is_serial s0 sched hf

/-- the hypothesis is satisfiable (the round-robin schedule finishes), and the lock of the plain branch is
    necessary: without it an expired leftover and one particular schedule leave the refused value in the cache -/
theorem concurrent_stores_nonvacuous :
    (∀ s0, StoreRace.finished (StoreRace.serialPN true s0) = true) ∧
    (∃ sched, StoreRace.finished (StoreRace.run false sched (StoreRace.init (.dead .init))) = true ∧
      (StoreRace.run false sched (StoreRace.init (.dead .init))).slot = .live .n) :=
  ⟨fun s0 => (StoreRace.serial_finishes s0).1, StoreRace.unlocked_can_displace⟩

end MosVerif.C08
