/-
  C17 — Peers are reached and authenticated exactly as configured.

  Address logic: `Model/Addr.lean` (helper lemmas in `Lemmas/Addr*.lean`);
  TLS options: `Model/TlsCfg.lean`.
-/
import MosVerif.Lemmas.AddrSpec
import MosVerif.Model.TlsCfg
import MosVerif.Lemmas.TranslatedC17
import MosVerif.Generated.Facts
namespace MosVerif.C17
open MosVerif.Addr

/-! ## the supported host forms are explicit and satisfiable -/

theorem digit_plain {c : Char} (h : isDigit c = true) : plainChar c = true := by
  simp only [plainChar, Bool.and_eq_true, bne_iff_ne]
  refine ⟨⟨⟨⟨?_, ?_⟩, ?_⟩, ?_⟩, ?_⟩ <;> (rintro rfl; revert h; decide)

theorem alpha_plain {c : Char} (h : isAlpha c = true) : plainChar c = true := by
  simp only [plainChar, Bool.and_eq_true, bne_iff_ne]
  refine ⟨⟨⟨⟨?_, ?_⟩, ?_⟩, ?_⟩, ?_⟩ <;> (rintro rfl; revert h; decide)

theorem hex_v6 {c : Char} (h : isHex c = true) : v6Char c = true := by
  simp only [v6Char, Bool.and_eq_true, bne_iff_ne]
  refine ⟨⟨⟨?_, ?_⟩, ?_⟩, ?_⟩ <;> (rintro rfl; revert h; decide)

/-- every dotted-quad IPv4 literal is a supported (bracket-free) host -/
theorem ipv4_is_plainHost {h : Str} (w : isIPv4 h = true) : isPlainHost h = true := by
  simp only [isIPv4, Bool.and_eq_true] at w
  have hall := w.1
  have hne : h ≠ [] := by
    intro e
    subst e
    have := w.2.1
    simp [splitOnChar] at this
  simp only [isPlainHost, Bool.and_eq_true, Bool.not_eq_true', List.isEmpty_eq_false_iff]
  refine ⟨hne, ?_⟩
  rw [List.all_eq_true] at hall ⊢
  intro c hc
  have := hall c hc
  simp only [Bool.or_eq_true, beq_iff_eq] at this
  rcases this with d | d
  · exact digit_plain d
  · subst d; decide

/-- every domain name is a supported host -/
theorem domain_is_plainHost {h : Str} (w : isDomain h = true) : isPlainHost h = true := by
  simp only [isDomain, Bool.and_eq_true, Bool.not_eq_true', List.isEmpty_eq_false_iff] at w
  simp only [isPlainHost, Bool.and_eq_true, Bool.not_eq_true', List.isEmpty_eq_false_iff]
  refine ⟨w.1.1, ?_⟩
  have hall := w.1.2
  rw [List.all_eq_true] at hall ⊢
  intro c hc
  have := hall c hc
  simp only [Bool.or_eq_true, beq_iff_eq] at this
  rcases this with (((d | d) | d) | d) | d
  · exact alpha_plain d
  · exact digit_plain d
  · subst d; decide
  · subst d; decide
  · subst d; decide

/-- every IPv6 text (any shape: compressed, full, embedded IPv4, zone) is a supported
    bracketed host body -/
theorem ipv6_is_v6Body {x : Str} (w : isIPv6Text x = true) : isV6Body x = true := by
  simp only [isIPv6Text, Bool.and_eq_true, decide_eq_true_eq] at w
  obtain ⟨⟨⟨ha, h2⟩, _⟩, hz⟩ := w
  have hx : x = x.takeWhile (· ≠ '%') ++ x.dropWhile (· ≠ '%') := (List.takeWhile_append_dropWhile).symm
  simp only [isV6Body, Bool.and_eq_true, decide_eq_true_eq]
  constructor
  · rw [hx, List.all_append, Bool.and_eq_true]
    constructor
    · rw [List.all_eq_true] at ha ⊢
      intro c hc
      have := ha c hc
      simp only [Bool.or_eq_true, beq_iff_eq] at this
      rcases this with (d | d) | d
      · exact hex_v6 d
      · subst d; decide
      · subst d; decide
    · rw [List.all_eq_true] at hz ⊢
      intro c hc
      have := hz c hc
      simp only [Bool.or_eq_true, beq_iff_eq] at this
      rcases this with (d | d) | d
      · subst d; decide
      · have := alpha_plain d
        simp only [plainChar, Bool.and_eq_true, bne_iff_ne] at this
        simp only [v6Char, Bool.and_eq_true, bne_iff_ne]
        exact ⟨⟨⟨this.1.1.1.2, this.1.1.2⟩, this.1.2⟩, this.2⟩
      · have := digit_plain d
        simp only [plainChar, Bool.and_eq_true, bne_iff_ne] at this
        simp only [v6Char, Bool.and_eq_true, bne_iff_ne]
        exact ⟨⟨⟨this.1.1.1.2, this.1.1.2⟩, this.1.2⟩, this.2⟩
  · rw [hx, List.count_append]
    omega

/-- every non-empty decimal number is a supported port -/
theorem decimal_is_port {p : Str} (hne : p ≠ []) (w : p.all isDigit = true) : isPort p = true := by
  simp only [isPort, Bool.and_eq_true, Bool.not_eq_true', List.isEmpty_eq_false_iff]
  refine ⟨hne, ?_⟩
  rw [List.all_eq_true] at w ⊢
  exact fun c hc => digit_plain (w c hc)

-- satisfiability: IPv4, domains, IPv6 in several textual shapes
example : isIPv4 "8.8.8.8".toList = true := by decide
example : isIPv4 "999.1.1.1".toList = false := by decide
example : isDomain "dns.example.".toList = true := by decide
example : isIPv6Text "::1".toList = true := by decide
example : isIPv6Text "2001:db8::1".toList = true := by decide
example : isIPv6Text "0:0:0:0:0:0:0:1".toList = true := by decide
example : isIPv6Text "::ffff:1.2.3.4".toList = true := by decide
example : isIPv6Text "fe80::1%eth0".toList = true := by decide
example : isIPv6Text "::".toList = true := by decide

/-! ## bracket trimming (D10) -/

/-- ★ `[x]` ↦ `x` for every `x`; every other string is returned unchanged; never a panic. -/
theorem trim_brackets_exact :
    (∀ x : Str, tryTrimIpv6Brackets? ('[' :: x ++ [']']) = some x) ∧
    (∀ s : Str, (¬ ∃ x, s = '[' :: x ++ [']']) → tryTrimIpv6Brackets? s = some s) :=
  ⟨trim_bracketed, trim_other⟩

/-- D10's witness: `[2001:db8::1]` keeps its last character. -/
example : tryTrimIpv6Brackets? "[2001:db8::1]".toList = some "2001:db8::1".toList := by decide

/-! ## where connections go -/

/-- "the scheme's default 53, 853, 443 or 80" -/
theorem default_ports :
    Scheme.defaultPort .none = "53".toList ∧ Scheme.defaultPort .udp = "53".toList ∧
    Scheme.defaultPort .tcp = "53".toList ∧ Scheme.defaultPort .tcpPipeline = "53".toList ∧
    Scheme.defaultPort .tls = "853".toList ∧ Scheme.defaultPort .tlsPipeline = "853".toList ∧
    Scheme.defaultPort .quic = "853".toList ∧ Scheme.defaultPort .doq = "853".toList ∧
    Scheme.defaultPort .https = "443".toList ∧ Scheme.defaultPort .h3 = "443".toList ∧
    Scheme.defaultPort .http = "80".toList := by decide

/-- ★ For every scheme (none = udp, helper schemes included), every host form (IPv4 literal or
    domain written plainly, IPv6 literal of any textual shape in brackets), with or without port
    and path, and no `dial_addr`: `NewUpstream` dials exactly `JoinHostPort(host, port or the
    scheme's default)` on the scheme's socket type, the TLS server name is the URL host (without
    brackets and port) and the HTTP host is the URL's `host[:port]`. -/
theorem dial_target (sch : Scheme) (host : Host) (port : Option Str) (path : Str)
    (ns : List (Str × Str))
    (w : (Case.mk sch host port path .none ns).wf = true) :
    ∃ plan, newUpstream (Case.mk sch host port path .none ns).addr [] = .ok plan ∧
      plan.dialAddr = joinHostPort host.bare (port.getD sch.defaultPort) ∧
      plan.network = sch.sock ∧
      (sch.tlsBased = true → plan.serverName = host.bare) ∧
      ((sch = .https ∨ sch = .http ∨ sch = .h3) → plan.httpHost = host.url ++ portSuffix port) := by
  refine ⟨_, newUpstream_case w, ?_, ?_, ?_, ?_⟩
  · simp [Case.expPlan, Case.expDial]
  · exact expNet_inet (by simp) (by simp)
  · cases sch <;> simp [Case.expPlan, Case.expServerName, Scheme.tlsBased]
  · rintro (h | h | h) <;> subst h <;> simp [Case.expPlan, Case.expHttpHost]

/-- non-vacuity: `tls://[2001:db8::1]` dials `[2001:db8::1]:853` with server name `2001:db8::1`. -/
example : newUpstream "tls://[2001:db8::1]".toList [] =
    .ok ⟨.tls, false, false, "tcp".toList, "[2001:db8::1]:853".toList, "2001:db8::1".toList, [], none⟩ := by
  decide

example : (Case.mk .tls (.v6 "2001:db8::1".toList) none [] .none []).wf = true := by decide

/-- ★ `dial_addr` given as IP or domain with or without port: that host and port (default port of
    the URL's scheme when missing) is dialled, whatever the URL host is; server name and HTTP host
    still derive from the URL. -/
theorem dial_override (sch : Scheme) (host : Host) (port : Option Str) (path : Str)
    (dh : Host) (dp : Option Str) (ns : List (Str × Str))
    (w : (Case.mk sch host port path (.host dh dp) ns).wf = true) :
    ∃ plan plan0,
      newUpstream (Case.mk sch host port path (.host dh dp) ns).addr (Dial.render (.host dh dp)) = .ok plan ∧
      newUpstream (Case.mk sch host port path .none ns).addr [] = .ok plan0 ∧
      plan.dialAddr = joinHostPort dh.bare (dp.getD sch.defaultPort) ∧
      plan.network = sch.sock ∧
      plan.serverName = plan0.serverName ∧ plan.httpHost = plan0.httpHost := by
  have w0 : (Case.mk sch host port path .none ns).wf = true := by
    simp only [Case.wf, Dial.wf, Bool.and_eq_true] at w ⊢
    exact ⟨⟨⟨w.1.1.1, w.1.1.2⟩, trivial⟩, w.2⟩
  refine ⟨_, _, newUpstream_case w, newUpstream_case w0, ?_, ?_, ?_, ?_⟩
  · simp [Case.expPlan, Case.expDial]
  · exact expNet_inet (by simp) (by simp)
  · simp [Case.expPlan, Case.expServerName]
  · simp [Case.expPlan, Case.expHttpHost]

/-- ★ `dial_addr = @name` on a stream based scheme (tcp/tls/http/https, +pipeline): network
    "unix", the address is passed unchanged, server name and HTTP host still derive from the URL. -/
theorem dial_override_unix (sch : Scheme) (host : Host) (port : Option Str) (path : Str)
    (name : Str) (ns : List (Str × Str)) (hs : sch.stream = true)
    (w : (Case.mk sch host port path (.unix name) ns).wf = true) :
    ∃ plan plan0,
      newUpstream (Case.mk sch host port path (.unix name) ns).addr ('@' :: name) = .ok plan ∧
      newUpstream (Case.mk sch host port path .none ns).addr [] = .ok plan0 ∧
      plan.dialAddr = '@' :: name ∧ plan.network = "unix".toList ∧
      plan.serverName = plan0.serverName ∧ plan.httpHost = plan0.httpHost := by
  have w0 : (Case.mk sch host port path .none ns).wf = true := by
    simp only [Case.wf, Dial.wf, Bool.and_eq_true] at w ⊢
    exact ⟨⟨⟨w.1.1.1, w.1.1.2⟩, trivial⟩, w.2⟩
  refine ⟨_, _, newUpstream_case w, newUpstream_case w0, ?_, ?_, ?_, ?_⟩
  · simp [Case.expPlan, Case.expDial]
  · simp [Case.expPlan, Case.expNet, hs]; decide
  · simp [Case.expPlan, Case.expServerName]
  · simp [Case.expPlan, Case.expHttpHost]

example : newUpstream "https://dns.example/dns-query".toList "@sock".toList =
    .ok ⟨.https, false, false, "unix".toList, "@sock".toList, "dns.example".toList, "dns.example".toList, none⟩ := by
  decide



/-- ★ every leg of an upstream goes to the same place: the TCP retry leg of a udp upstream (used after
    a truncated UDP reply) is dialled to exactly the address of the UDP leg — the `dial_addr` override
    included — and no other protocol has a second leg. -/
theorem udp_fallback_same_target (c : Case) (w : c.wf = true) :
    ∃ plan, newUpstream c.addr c.dial.render = .ok plan ∧
      plan.tcpFallback = (if c.scheme.tcpRetry then some plan.dialAddr else none) ∧
      (c.scheme.tcpRetry = true → ∀ dh dp, c.dial = .host dh dp →
        plan.tcpFallback = some (joinHostPort dh.bare (dp.getD c.scheme.defaultPort))) :=
  ⟨_, newUpstream_case w, rfl, by
    intro ht dh dp hd
    simp [Case.expPlan, ht, Case.expDial, hd]⟩

-- the specification rejects a TCP retry that goes to the URL host instead of `dial_addr` (seeded m2)
example : specDial ⟨.udp, .plain "dns.example".toList, none, [], .host (.plain "127.0.0.9".toList) (some "PORT".toList),
      [("dns.example".toList, "10.1.2.3".toList), ("127.0.0.9".toList, "127.0.0.9".toList)]⟩
    ⟨"ok".toList, "tcp4|10.1.2.3:53;udp4|127.0.0.9:PORT".toList, none, none, none⟩ = false := by decide
example : specDial ⟨.udp, .plain "dns.example".toList, none, [], .host (.plain "127.0.0.9".toList) (some "PORT".toList),
      [("dns.example".toList, "10.1.2.3".toList), ("127.0.0.9".toList, "127.0.0.9".toList)]⟩
    ⟨"ok".toList, "tcp4|127.0.0.9:PORT;udp4|127.0.0.9:PORT".toList, none, none, none⟩ = true := by decide

/-- ★ `dial_addr` given as an IPv6 address in brackets without port (the former "known corner", now
    repaired in the code): that address with the default port of the URL's scheme is dialled; server
    name and HTTP host still derive from the URL. -/
theorem dial_override_bracketed (sch : Scheme) (host : Host) (port : Option Str) (path : Str)
    (x : Str) (ns : List (Str × Str))
    (w : (Case.mk sch host port path (.bracketed x) ns).wf = true) :
    ∃ plan plan0,
      newUpstream (Case.mk sch host port path (.bracketed x) ns).addr ('[' :: x ++ [']']) = .ok plan ∧
      newUpstream (Case.mk sch host port path .none ns).addr [] = .ok plan0 ∧
      plan.dialAddr = joinHostPort x sch.defaultPort ∧
      plan.network = sch.sock ∧
      plan.serverName = plan0.serverName ∧ plan.httpHost = plan0.httpHost := by
  have w0 : (Case.mk sch host port path .none ns).wf = true := by
    simp only [Case.wf, Dial.wf, Bool.and_eq_true] at w ⊢
    exact ⟨⟨⟨w.1.1.1, w.1.1.2⟩, trivial⟩, w.2⟩
  refine ⟨_, _, newUpstream_case w, newUpstream_case w0, ?_, ?_, ?_, ?_⟩
  · simp [Case.expPlan, Case.expDial]
  · exact expNet_inet (by simp) (by simp)
  · simp [Case.expPlan, Case.expServerName]
  · simp [Case.expPlan, Case.expHttpHost]

example : getDialAddr "dns.example".toList "[2001:db8::1]".toList "853".toList = "[2001:db8::1]:853".toList := by
  decide

/-- ★ the executable specification used as oracle for the real `NewUpstream` holds of the model on
    every case (every scheme × host form × port × path × dial_addr form × name service). -/
theorem dial_model_meets_spec (c : Case) : specDial c (modelDial c) = true :=
  Addr.dial_model_meets_spec c

/-- ★ the same for the pure helpers (`tryTrimIpv6Brackets`, `getDialAddr`, `tryRemovePort`,
    `dialNetworkTcpOrUnix`) on every structured form. -/
theorem form_model_meets_spec (c : FormCase) : specForm c (modelForm c) = true :=
  Addr.form_model_meets_spec c

theorem trim_model_meets_spec (s : Str) : specTrim s (tryTrimIpv6Brackets? s) = true :=
  Addr.trim_model_meets_spec s

theorem net_model_meets_spec (s : Str) : specNet s (dialNetworkTcpOrUnix s) = true :=
  Addr.net_model_meets_spec s

-- the specification is not vacuous: it rejects D10's observation (`[2001:db8::]:853`) …
example : specDial ⟨.tls, .v6 "2001:db8::1".toList, none, [], .none, []⟩
    ⟨"ok".toList, "tcp6|[2001:db8::]:853".toList, none, none, none⟩ = false := by decide
example : specDial ⟨.tls, .v6 "2001:db8::1".toList, none, [], .none, []⟩
    ⟨"ok".toList, "tcp6|[2001:db8::1]:853".toList, none, none, none⟩ = true := by decide
-- … a wrong default port, a server name taken from the dial address, a unix dial as tcp
example : specDial ⟨.https, .plain "dns.example".toList, none, [], .none, []⟩
    ⟨"ok".toList, "tcp4|dns.example:853".toList, none, none, none⟩ = false := by decide
example : specDial ⟨.tls, .plain "dns.example".toList, none, [], .host (.plain "127.0.0.1".toList) (some "PORT".toList), []⟩
    ⟨"ok".toList, "tcp4|127.0.0.1:PORT".toList, some "127.0.0.1".toList, none, none⟩ = false := by decide
example : specDial ⟨.tls, .plain "dns.example".toList, none, [], .host (.plain "127.0.0.1".toList) (some "PORT".toList), []⟩
    ⟨"ok".toList, "tcp4|127.0.0.1:PORT".toList, some "dns.example".toList, some "dns.example".toList, none⟩ = true := by decide
example : specDial ⟨.tcp, .plain "dns.example".toList, none, [], .unix "x".toList, []⟩
    ⟨"ok".toList, "tcp4|@x".toList, none, none, none⟩ = false := by decide

/-! ## TLS options -/

open MosVerif.TlsCfg

/-- every successful `makeTlsConfig` maps the options field by field -/
theorem mk_ok_fields (cfg : TlsConfig) (req : Bool) (g : GoTls) (h : makeTlsConfig cfg req = .ok g) :
    g.insecureSkipVerify = cfg.insecureSkipVerify ∧ g.rootCAs = caPool cfg.ca ∧
    g.clientCAs = caPool cfg.ca ∧
    g.clientAuth = (if cfg.verifyClientCert then .requireAndVerifyClientCert else .noClientCert) ∧
    (req = true → g.certificates ≠ .none) := by
  unfold makeTlsConfig at h
  split at h
  · cases h
  · rename_i hreq
    cases hca : cfg.ca <;> simp [hca] at h <;> (repeat' split at h) <;>
      simp_all [caPool] <;> (subst_vars; simp_all [FileRef.isEmpty]) <;>
      (cases req <;> simp_all)

/-- ★ (D11) `verify_client_cert` ⇒ the listener's `tls.Config` requires and verifies client
    certificates, against the configured CA. -/
theorem server_requires_client_cert (cfg : TlsConfig) (req : Bool) (g : GoTls)
    (hv : cfg.verifyClientCert = true) (h : makeTlsConfig cfg req = .ok g) :
    g.clientAuth = .requireAndVerifyClientCert ∧ g.clientCAs = caPool cfg.ca := by
  have := mk_ok_fields cfg req g h
  simp [this, hv]

/-- ★ verification is on unless explicitly disabled, against the configured CA (system roots
    when none is configured). -/
theorem upstream_verifies (cfg : TlsConfig) (req : Bool) (g : GoTls)
    (hi : cfg.insecureSkipVerify = false) (h : makeTlsConfig cfg req = .ok g) :
    g.insecureSkipVerify = false ∧ g.rootCAs = caPool cfg.ca := by
  have := mk_ok_fields cfg req g h
  simp [this, hi]

/-- a listener (`requireCert`) is never started without a certificate: the configuration is refused -/
theorem listener_needs_cert (cfg : TlsConfig) (g : GoTls) (h : makeTlsConfig cfg true = .ok g) :
    g.certificates ≠ .none := (mk_ok_fields cfg true g h).2.2.2.2 rfl

/-- ★ an upstream built from the options completes a handshake only with a server whose
    certificate chains to the configured CA (system roots by default), matches the server name
    and is within its validity — unless verification is explicitly disabled. -/
theorem upstream_accepts_only_verified (cfg : TlsConfig) (req : Bool) (g : GoTls) (p : Peer)
    (hi : cfg.insecureSkipVerify = false) (h : makeTlsConfig cfg req = .ok g)
    (hv : verdict g p = true) :
    p.chains (caPool cfg.ca) = true ∧ p.nameOk = true ∧ p.inValidity = true := by
  have := upstream_verifies cfg req g hi h
  simpa [verdict, this, and_assoc] using hv

/-- ★ a listener configured with `verify_client_cert` serves no client that has not presented a
    certificate chaining to the configured CA (and within validity). -/
theorem listener_serves_only_authenticated (cfg : TlsConfig) (g : GoTls) (cert : Option Peer)
    (hv : cfg.verifyClientCert = true) (h : makeTlsConfig cfg true = .ok g)
    (hs : serves g cert = true) :
    ∃ p, cert = some p ∧ p.chains (caPool cfg.ca) = true ∧ p.inValidity = true := by
  have := server_requires_client_cert cfg true g hv h
  cases cert with
  | none => simp [serves, this] at hs
  | some p => exact ⟨p, rfl, by simpa [serves, this] using hs⟩

-- non-vacuity: such configurations exist, and without the option everybody is served
example : makeTlsConfig ⟨.good 1, .good 1, .good 1, false, true, false⟩ true =
    .ok ⟨false, some 1, some 1, .requireAndVerifyClientCert, .file 1, none⟩ := by decide
example : serves ⟨false, some 1, some 1, .noClientCert, .file 1, none⟩ none = true := by decide
example : serves ⟨false, some 1, some 1, .requireAndVerifyClientCert, .file 1, none⟩ none = false := by decide
example : makeTlsConfig ⟨.unset, .unset, .unset, false, false, false⟩ false =
    .ok ⟨false, none, none, .noClientCert, .none, none⟩ := by decide

/-- ★ the model of `makeTlsConfig` satisfies the executable specification of the option mapping. -/
theorem cfg_model_meets_spec (cfg : TlsConfig) (req : Bool) :
    specCfg cfg (makeTlsConfig cfg req) = true := by
  cases h : makeTlsConfig cfg req with
  | ok g =>
    have f := mk_ok_fields cfg req g h
    cases hv : cfg.verifyClientCert <;> simp [specCfg, f, hv]
  | _ => rfl

/-- ★ the handshake outcome predicted by the model (option mapping + `verdict`/`serves` over the
    harness' certificate kinds) satisfies the property's statement about outcomes. -/
theorem hs_model_meets_spec (c : HsCase) : specHs c (modelHs c) = true := by
  obtain ⟨side, cfg, peer, swc⟩ := c
  cases side with
  | upstream =>
    cases h : makeTlsConfig cfg false with
    | ok g =>
      have f := mk_ok_fields cfg false g h
      cases peer <;> cases hca : cfg.ca <;> cases hi : cfg.insecureSkipVerify <;>
        simp [specHs, modelHs, h, CertKind.peer, verdict, f, hca, hi, caPool] <;>
        (rename_i i; first | (by_cases hid : i = 1 <;> simp [hid]) | (by_cases hid : i = 2 <;> simp [hid]))
    | _ => simp [specHs, modelHs, h]
  | listener =>
    cases h : makeTlsConfig cfg true with
    | ok g =>
      have f := mk_ok_fields cfg true g h
      cases hv : cfg.verifyClientCert
      · simp [specHs, hv]
      · cases peer <;> cases hca : cfg.ca <;>
          simp [specHs, modelHs, h, CertKind.peer, serves, f, hv, hca, caPool] <;> omega
    | _ => simp [specHs, modelHs, h]

/-- the specification rejects serving an unauthenticated client (D11's observation) … -/
example : specHs ⟨.listener, ⟨.good 1, .good 1, .good 1, false, true, false⟩, .absent, false⟩ (some true) = false := by
  decide
/-- … and an upstream that accepts a certificate of an unknown CA or a wrong name. -/
example : specHs ⟨.upstream, ⟨.unset, .unset, .good 1, false, false, false⟩, .unknownCA, false⟩ (some true) = false := by
  decide
example : specHs ⟨.upstream, ⟨.unset, .unset, .good 1, false, false, false⟩, .wrongName, false⟩ (some true) = false := by
  decide
example : specHs ⟨.upstream, ⟨.unset, .unset, .good 1, false, false, false⟩, .valid, false⟩ (some true) = true := by
  decide


/-! ## histories: every exchange is judged by its own upstream's options -/

/-- the `tls.Config` built by `makeTlsConfig` has no client session cache -/
theorem mk_no_session_cache (cfg : TlsConfig) (req : Bool) (g : GoTls)
    (h : makeTlsConfig cfg req = .ok g) : g.sessionCache = none := by
  unfold makeTlsConfig at h
  split at h
  · cases h
  · cases hca : cfg.ca <;> simp [hca] at h <;> (repeat' split at h) <;> simp_all <;> (subst_vars; rfl)

/-- ★ independence of history: for configs without session cache, over ALL histories (any sequence of
    exchanges of any upstreams, from any state of resumable sessions), the outcome of every exchange
    is the full-handshake verdict of that exchange's own upstream — nothing earlier exchanges of
    other upstreams did matters. -/
theorem history_independent (peer : CertKind) (ss : Sessions) (steps : List (GoTls × Bool))
    (hn : ∀ s ∈ steps, s.1.sessionCache = none) :
    runUp peer ss steps = steps.map (fun s => fullVerdict peer s.1 s.2) := by
  induction steps generalizing ss with
  | nil => rfl
  | cons s rest ih =>
    obtain ⟨g, h⟩ := s
    have hg : g.sessionCache = none := hn (g, h) (by simp)
    have hr : ∀ s ∈ rest, s.1.sessionCache = none := fun s hs => hn s (by simp [hs])
    simp [runUp, upStep, hg, ih _ hr]

/-- the verdict of one upstream on its own: its options, its server name, the peer certificate -/
def ownVerdict (peer : CertKind) (u : UpCfg) : Bool :=
  match makeTlsConfig u.cfg false with
  | .ok g => fullVerdict peer g u.hostSrv
  | _ => false

/-- ★ … hence for upstreams built by the real configuration path (`makeTlsConfig`): over every history
    of exchanges of any upstreams, from any state, each exchange yields its own upstream's verdict. -/
theorem upstream_history_own_verdict (peer : CertKind) (ss : Sessions) (us : List UpCfg) :
    runUpCfg peer ss us = us.map (ownVerdict peer) := by
  induction us generalizing ss with
  | nil => rfl
  | cons u rest ih =>
    simp only [runUpCfg, List.map_cons, ownVerdict]
    cases h : makeTlsConfig u.cfg false with
    | ok g =>
      have hg := mk_no_session_cache _ _ _ h
      simp [upStep, hg, ih]
    | _ => simp [ih]

/-- non-vacuity (the seeded m1): with ONE cache shared by two configs the outcome does depend on the
    history — B (trusts CA 2) fails against a CA-1 certificate, then succeeds after A (trusts CA 1) did. -/
example :
    runUp .valid [] [(⟨false, some 2, some 2, .noClientCert, .none, some 0⟩, true),
                     (⟨false, some 1, some 1, .noClientCert, .none, some 0⟩, true),
                     (⟨false, some 2, some 2, .noClientCert, .none, some 0⟩, true)] = [false, true, true] := by
  decide
example :
    runUp .valid [] [(⟨false, some 2, some 2, .noClientCert, .none, none⟩, true),
                     (⟨false, some 1, some 1, .noClientCert, .none, none⟩, true),
                     (⟨false, some 2, some 2, .noClientCert, .none, none⟩, true)] = [false, true, false] := by
  decide

theorem ownVerdict_allowed (peer : CertKind) (u : UpCfg) (hv : ownVerdict peer u = true) :
    allowedUp u peer = true := by
  unfold ownVerdict at hv
  cases h : makeTlsConfig u.cfg false with
  | ok g =>
    rw [h] at hv
    have f := mk_ok_fields u.cfg false g h
    obtain ⟨cfg, hsrv⟩ := u
    cases peer <;> cases hca : cfg.ca <;> cases hi : cfg.insecureSkipVerify <;> cases hsrv <;>
      simp_all [fullVerdict, peerFor, CertKind.peer, verdict, allowedUp, caPool]
  | _ => rw [h] at hv; cases hv

theorem allOk_own (peer : CertKind) (us : List UpCfg) : allOk us (us.map (ownVerdict peer)) peer = true := by
  induction us with
  | nil => rfl
  | cons u rest ih =>
    simp only [List.map_cons, allOk, Bool.and_eq_true, Bool.or_eq_true, Bool.not_eq_true']
    refine ⟨?_, ih⟩
    cases hv : ownVerdict peer u
    · exact Or.inl rfl
    · exact Or.inr (ownVerdict_allowed peer u hv)

/-- ★ the history model satisfies the executable specification (every upstream set, every history). -/
theorem up_hist_model_meets_spec (peer : CertKind) (ups : List UpCfg) (steps : List Nat) :
    specUpHist peer ups steps (modelUpHist peer ups steps) = true := by
  unfold modelUpHist
  cases hm : mkAll ups with
  | none => simp [specUpHist]
  | some gs =>
    cases hs : getAll ups steps with
    | none => simp [specUpHist]
    | some us => simp [specUpHist, hs, upstream_history_own_verdict, allOk_own]

-- the specification rejects the m1 history: B succeeds although the certificate does not chain to B's CA
example : specUpHist .valid [⟨⟨.unset, .unset, .good 1, false, false, false⟩, true⟩,
                              ⟨⟨.unset, .unset, .good 2, false, false, false⟩, true⟩] [1, 0, 1]
    (some [false, true, true]) = false := by decide
example : specUpHist .valid [⟨⟨.unset, .unset, .good 1, false, false, false⟩, true⟩,
                              ⟨⟨.unset, .unset, .good 2, false, false, false⟩, true⟩] [1, 0, 1]
    (some [false, true, false]) = true := by decide


/-! ### listener side histories (client session resumption) -/

/-- for a listener built with `verify_client_cert`, "served in a full handshake" is exactly "presented a
    certificate chaining to the configured CA, within validity" -/
theorem serves_iff_allowedLi (cfg : TlsConfig) (g : GoTls) (k : CertKind)
    (hv : cfg.verifyClientCert = true) (h : makeTlsConfig cfg true = .ok g) :
    serves g k.peer = allowedLi cfg k := by
  have f := server_requires_client_cert cfg true g hv h
  cases k <;> cases hca : cfg.ca <;> simp [serves, f, CertKind.peer, allowedLi, hca, caPool] <;>
    (rename_i i; rw [Bool.eq_iff_iff]; by_cases h1 : i = 1 <;> by_cases h2 : i = 2 <;> simp [h1, h2])

/-- ★ one connection: it is served only if it presented an acceptable certificate itself, or resumed a
    session of its own client cache that was created by a handshake presenting one. -/
theorem liStep_served (g : GoTls) (ss : CliSessions) (s : CliStep)
    (_hr : g.clientAuth = .requireAndVerifyClientCert) (ho : (liStep g ss s).1 = true) :
    serves g s.cert.peer = true ∨
      ∃ c orig, s.cache = some c ∧ ss.lookup c = some orig ∧ serves g orig.peer = true := by
  unfold liStep at ho
  split at ho
  · rename_i orig hl
    split at ho
    · rename_i hc
      right
      cases hcache : s.cache with
      | none => simp [hcache] at hl
      | some c =>
        simp only [hcache, Option.bind_some] at hl
        simp only [Bool.and_eq_true] at hc
        exact ⟨c, orig, rfl, hl, hc.2⟩
    · left
      simp only [liFull, Bool.and_eq_true] at ho
      exact ho.2
  · left
    simp only [liFull, Bool.and_eq_true] at ho
    exact ho.2

/-- sessions in client caches are only ever created by handshakes that presented an acceptable
    certificate: the invariant that makes `liStep_served` meaningful over whole histories -/
theorem liStep_inv (g : GoTls) (ss : CliSessions) (s : CliStep)
    (hi : ∀ c k, (c, k) ∈ ss → serves g k.peer = true) :
    ∀ c k, (c, k) ∈ (liStep g ss s).2 → serves g k.peer = true := by
  have hfull : ∀ c k, (c, k) ∈ (liFull g ss s).2 → serves g k.peer = true := by
    intro c k hm
    unfold liFull at hm
    cases hcache : s.cache with
    | none => simp [hcache] at hm; exact hi c k hm
    | some c' =>
      simp only [hcache] at hm
      split at hm
      · rename_i hok
        rcases List.mem_cons.mp hm with e | e
        · simp only [Prod.mk.injEq] at e
          simp only [Bool.and_eq_true] at hok
          rw [e.2]; exact hok.2
        · exact hi c k e
      · exact hi c k hm
  unfold liStep
  split
  · split
    · exact hi
    · exact hfull
  · exact hfull

theorem runLi_length (g : GoTls) (ss : CliSessions) (steps : List CliStep) :
    (runLi g ss steps).length = steps.length := by
  induction steps generalizing ss with
  | nil => rfl
  | cons s rest ih => simp [runLi, ih]

def LiRel (ss : CliSessions) (auth : List Nat) : Prop :=
  ∀ c k, ss.lookup c = some k → auth.contains c = true

theorem liRel_mono {ss : CliSessions} {auth : List Nat} (h : LiRel ss auth) (cache : Option Nat) (good : Bool) :
    LiRel ss (authNext auth cache good) := by
  intro c k hl
  have := h c k hl
  unfold authNext
  split
  · split
    · simp only [List.contains_cons, Bool.or_eq_true]; exact Or.inr this
    · exact this
  · exact this

theorem liRel_cons {ss : CliSessions} {auth : List Nat} (h : LiRel ss auth) (c0 : Nat) (k0 : CertKind) :
    LiRel ((c0, k0) :: ss) (authNext auth (some c0) true) := by
  intro c k hl
  simp only [authNext, if_true, List.contains_cons, Bool.or_eq_true, beq_iff_eq]
  by_cases hc : c = c0
  · exact Or.inl hc
  · right
    have hne : (c == c0) = false := by simpa using hc
    have : ss.lookup c = some k := by simpa [List.lookup, hne] using hl
    exact h c k this

theorem specLi_run (cfg : TlsConfig) (g : GoTls) (hv : cfg.verifyClientCert = true)
    (h : makeTlsConfig cfg true = .ok g) (steps : List CliStep) :
    ∀ (ss : CliSessions) (auth : List Nat), LiRel ss auth →
      specLi cfg auth steps (runLi g ss steps) = true := by
  induction steps with
  | nil => intros; rfl
  | cons s rest ih =>
    intro ss auth hrel
    have hsv := serves_iff_allowedLi cfg g s.cert hv h
    -- a full handshake
    have hfull : ((!(liFull g ss s).1 || allowedLi cfg s.cert || viaCache auth s.cache) = true) ∧
        LiRel (liFull g ss s).2
          (authNext auth s.cache ((liFull g ss s).1 && (allowedLi cfg s.cert || viaCache auth s.cache))) := by
      have hown : (liFull g ss s).1 = true → allowedLi cfg s.cert = true := by
        intro ho
        simp only [liFull, Bool.and_eq_true] at ho
        rw [← hsv]; exact ho.2
      constructor
      · cases ho : (liFull g ss s).1
        · simp
        · simp [hown ho]
      · cases hcache : s.cache with
        | none => simpa [liFull, hcache, authNext] using hrel
        | some c0 =>
          cases ho : (liFull g ss s).1
          · have : (liFull g ss s).2 = ss := by
              have ho' := ho
              simp only [liFull] at ho'
              simp [liFull, hcache, ho']
            rw [this]; exact liRel_mono hrel _ _
          · have : (liFull g ss s).2 = (c0, s.cert) :: ss := by
              have ho' := ho
              simp only [liFull] at ho'
              simp [liFull, hcache, ho']
            rw [this, hown ho]
            simpa using liRel_cons hrel c0 s.cert
    have key : ((!(liStep g ss s).1 || allowedLi cfg s.cert || viaCache auth s.cache) = true) ∧
        LiRel (liStep g ss s).2
          (authNext auth s.cache ((liStep g ss s).1 && (allowedLi cfg s.cert || viaCache auth s.cache))) := by
      unfold liStep
      split
      · rename_i orig hl
        split
        · -- resumed: the cache is one the specification knows to hold an authenticated session
          have hvia : viaCache auth s.cache = true := by
            cases hcache : s.cache with
            | none => simp [hcache] at hl
            | some c0 =>
              simp only [hcache, Option.bind_some] at hl
              simpa [viaCache] using hrel c0 orig hl
          exact ⟨by simp [hvia], liRel_mono hrel _ _⟩
        · exact hfull
      · exact hfull
    simp only [runLi, specLi, Bool.and_eq_true]
    exact ⟨key.1, ih _ _ key.2⟩

/-- ★ over all histories of client connections (any certificates, any sharing of client session caches):
    the listener model satisfies the specification — with `verify_client_cert` every served connection
    traces back to a presented acceptable certificate. -/
theorem li_hist_model_meets_spec (cfg : TlsConfig) (steps : List CliStep) :
    specLiHist cfg steps (modelLiHist cfg steps) = true := by
  unfold modelLiHist
  cases h : makeTlsConfig cfg true with
  | ok g =>
    cases hv : cfg.verifyClientCert
    · simp [specLiHist, hv, runLi_length]
    · simp only [specLiHist, hv, if_true]
      exact specLi_run cfg g hv h steps [] [] (by intro c k hl; simp [List.lookup] at hl)
  | _ => rfl

-- a client without certificate is refused, also when it tries to resume with a fresh cache; it is served
-- when it resumes the session (same cache) of a client that presented a valid certificate
example : modelLiHist ⟨.good 1, .good 1, .good 1, false, true, false⟩
    [⟨.valid, some 0⟩, ⟨.absent, some 1⟩, ⟨.absent, some 0⟩, ⟨.absent, none⟩] = some [true, false, true, false] := by
  decide
-- the specification rejects serving a certificate-less client that has nothing to resume
example : specLiHist ⟨.good 1, .good 1, .good 1, false, true, false⟩
    [⟨.valid, some 0⟩, ⟨.absent, some 1⟩] (some [true, true]) = false := by decide

/-! ## tie: pinned source facts -/

/-- `tryTrimIpv6Brackets`: slice bounds `s[1 : len(s)-1]` (D10 was `len(s)-2`); the guard `len(s) < 2` and the bracket
    test are tied by translation (`Addr.trimLenCond_translated`, `Addr.trimBracketCond_translated`). -/
theorem pins_trim :
    Facts.addr_trimSlice = "return s[1 : len(s)-1]" ∧
    Facts.addr_trimCall = "urlAddrHost := tryTrimIpv6Brackets(addrURL.Host)" := by decide

/-- `getDialAddr` / `dialNetworkTcpOrUnix`: the `@` tests, default port joins (the tests `len(dialAddr) > 0` and
    `len(port) == 0` are tied by translation, `Addr.gdaDialCond_translated`, `Addr.gdaPortCond1/2_translated`). -/
theorem pins_dialaddr :
    Facts.addr_gdaUnixCond = "strings.HasPrefix(dialAddr, \"@\")" ∧
    Facts.addr_netUnixCond = "strings.HasPrefix(dialAddr, \"@\")" ∧
    Facts.addr_gdaPortConds = 2 ∧
    Facts.addr_gdaJoin0 = "return net.JoinHostPort(tryTrimIpv6Brackets(host), defaultPort)" ∧
    Facts.addr_gdaJoin1 = "return net.JoinHostPort(host, defaultPort)" := by decide

/-- `NewUpstream`: scheme defaulting, helper schemes, the per-scheme default ports (in source order:
    udp, tcp, tls, https/http, quic), every dial address comes from `getDialAddr(urlAddrHost,
    opt.DialAddr, …)`, the server name comes from the URL host. -/
theorem pins_newUpstream :
    Facts.addr_schemeDefaultCond = "!strings.Contains(addr, \"://\")" ∧
    Facts.addr_schemeDefaultStmt = "addr = \"udp://\" + addr" ∧
    Facts.addr_pipelineScheme = "addrURL.Scheme = addrURL.Scheme[:3]" ∧
    Facts.addr_h3Scheme = "addrURL.Scheme = \"https\"" ∧
    Facts.addr_defPortUdp = "\"53\"" ∧ Facts.addr_defPortTcp = "\"53\"" ∧
    Facts.addr_defPortTls = "\"853\"" ∧ Facts.addr_defPortHttp = "defaultPort" ∧
    Facts.addr_defPortQuic = "\"853\"" ∧
    Facts.addr_httpPortCond = "addrURL.Scheme == \"http\"" ∧
    Facts.addr_port80 = "defaultPort = \"80\"" ∧ Facts.addr_port443 = "defaultPort = \"443\"" ∧
    Facts.addr_gdaCalls = 5 ∧
    Facts.addr_sniTls = "tlsConfig.ServerName = tryRemovePort(urlAddrHost)" ∧
    Facts.addr_sniQuic = "tlsConfig.ServerName = tryRemovePort(urlAddrHost)" ∧
    Facts.addr_tlsClient = "tlsConn := tls.Client(conn, tlsConfig)" := by decide

/-- `makeTlsConfig` and its callers: which option is written to which `tls.Config` field (D11: the
    `ClientAuth` assignment), upstreams do not require a certificate, listeners do. -/
theorem pins_tls :
    Facts.tlscfg_insecure = "c.InsecureSkipVerify = cfg.InsecureSkipVerify" ∧
    Facts.tlscfg_vccCond = "cfg.VerifyClientCert" ∧
    Facts.tlscfg_clientAuth = "c.ClientAuth = tls.RequireAndVerifyClientCert" ∧
    Facts.tlscfg_caCond = "len(cfg.CA) > 0" ∧
    Facts.tlscfg_rootCAs = "c.RootCAs = pool" ∧ Facts.tlscfg_clientCAs = "c.ClientCAs = pool" ∧
    Facts.tlscfg_upstreamCfgArg = "&cfg.Tls" ∧ Facts.tlscfg_upstreamArg = "false" ∧
    Facts.tlscfg_tcpArg = "true" ∧ Facts.tlscfg_httpArg = "true" ∧ Facts.tlscfg_quicArg = "true" ∧
    Facts.tlscfg_upstreamOpt = "opt := upstream.Opt{ DialAddr: cfg.DialAddr, Logger: r.subLoggerForUpstream(cfg.Tag), TLSConfig: tlsConfig, Control: controlSocket(controlOpts), }" ∧
    Facts.tlscfg_tcpServerHandshake = "tlsConn := tls.Server(c, s.tlsConfig)" := by
  refine ⟨?_, ?_, ?_, ?_, ?_, ?_, ?_, ?_, ?_, ?_, ?_, ?_, ?_⟩ <;> rfl


/-- both legs of a udp upstream close over the same `dialAddr` expression; `NewUpstream` builds no nested
    upstream (which would need its own `dial_addr`), and there are exactly the five known dial sites. -/
theorem pins_legs :
    Facts.addr_udpLegDial = "return dialer.DialContext(ctx, \"udp\", dialAddr)" ∧
    Facts.addr_tcpLegDial = "return dialer.DialContext(ctx, \"tcp\", dialAddr)" ∧
    Facts.addr_newUpstreamRecursion = 0 ∧ Facts.addr_dialContextCalls = 5 ∧
    Facts.addr_fallbackTcpLeg = "return u.t.ExchangeContext(ctx, q)" := by decide

/-- the `tls.Config` of an upstream is a fresh object per `makeTlsConfig` call with exactly the six known
    field writes and no session cache; nothing on the way to the handshake installs one (the per-upstream
    `Clone()` copies are private). -/
theorem pins_no_shared_tls_state :
    Facts.tlscfg_new = "c := new(tls.Config)" ∧ Facts.tlscfg_fieldWrites = 6 ∧
    Facts.tlscfg_sessionCacheUses = 0 ∧ Facts.tlscfg_upstreamSessionCacheUses = 0 ∧
    Facts.addr_sessionCacheUses = 0 ∧
    Facts.addr_tlsCloneTls = "tlsConfig := opt.TLSConfig.Clone()" ∧
    Facts.addr_tlsCloneQuic = "tlsConfig := opt.TLSConfig.Clone()" := by decide

end MosVerif.C17
