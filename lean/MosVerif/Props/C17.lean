/-
  C17 — Peers are reached and authenticated exactly as configured.

  Address logic: `Model/Addr.lean` (helper lemmas in `Lemmas/Addr*.lean`);
  TLS options: `Model/TlsCfg.lean`.
-/
import MosVerif.Lemmas.AddrSpec
import MosVerif.Model.TlsCfg
import MosVerif.Generated.Facts
namespace MosVerif.C17
open MosVerif.Addr

/-! ## the supported host forms are explicit and satisfiable -/

theorem digit_plain {c : Char} (h : isDigit c = true) : plainChar c = true := by
  simp only [plainChar, Bool.and_eq_true, bne_iff_ne]
  refine ⟨⟨⟨⟨?_, ?_⟩, ?_⟩, ?_⟩, ?_⟩ <;> (rintro rfl; revert h; decide)

theorem alpha_plain {c : Char} (h : isAlpha c = true) : plainChar c = true := by
  simp only [plainChar, Bool.and_eq_true, bne_iff_ne]
  refine ⟨⟨⟨⟨?_, ?_⟩, ?_⟩, ?_⟩, ?_⟩ <;> (rintro rfl; revert h; decide)

theorem hex_v6 {c : Char} (h : isHex c = true) : v6Char c = true := by
  simp only [v6Char, Bool.and_eq_true, bne_iff_ne]
  refine ⟨⟨⟨?_, ?_⟩, ?_⟩, ?_⟩ <;> (rintro rfl; revert h; decide)

/-- every dotted-quad IPv4 literal is a supported (bracket-free) host -/
theorem ipv4_is_plainHost {h : Str} (w : isIPv4 h = true) : isPlainHost h = true := by
  simp only [isIPv4, Bool.and_eq_true] at w
  have hall := w.1
  have hne : h ≠ [] := by
    intro e
    subst e
    have := w.2.1
    simp [splitOnChar] at this
  simp only [isPlainHost, Bool.and_eq_true, Bool.not_eq_true', List.isEmpty_eq_false_iff]
  refine ⟨hne, ?_⟩
  rw [List.all_eq_true] at hall ⊢
  intro c hc
  have := hall c hc
  simp only [Bool.or_eq_true, beq_iff_eq] at this
  rcases this with d | d
  · exact digit_plain d
  · subst d; decide

/-- every domain name is a supported host -/
theorem domain_is_plainHost {h : Str} (w : isDomain h = true) : isPlainHost h = true := by
  simp only [isDomain, Bool.and_eq_true, Bool.not_eq_true', List.isEmpty_eq_false_iff] at w
  simp only [isPlainHost, Bool.and_eq_true, Bool.not_eq_true', List.isEmpty_eq_false_iff]
  refine ⟨w.1.1, ?_⟩
  have hall := w.1.2
  rw [List.all_eq_true] at hall ⊢
  intro c hc
  have := hall c hc
  simp only [Bool.or_eq_true, beq_iff_eq] at this
  rcases this with (((d | d) | d) | d) | d
  · exact alpha_plain d
  · exact digit_plain d
  · subst d; decide
  · subst d; decide
  · subst d; decide

/-- every IPv6 text (any shape: compressed, full, embedded IPv4, zone) is a supported
    bracketed host body -/
theorem ipv6_is_v6Body {x : Str} (w : isIPv6Text x = true) : isV6Body x = true := by
  simp only [isIPv6Text, Bool.and_eq_true, decide_eq_true_eq] at w
  obtain ⟨⟨⟨ha, h2⟩, _⟩, hz⟩ := w
  have hx : x = x.takeWhile (· ≠ '%') ++ x.dropWhile (· ≠ '%') := (List.takeWhile_append_dropWhile).symm
  simp only [isV6Body, Bool.and_eq_true, decide_eq_true_eq]
  constructor
  · rw [hx, List.all_append, Bool.and_eq_true]
    constructor
    · rw [List.all_eq_true] at ha ⊢
      intro c hc
      have := ha c hc
      simp only [Bool.or_eq_true, beq_iff_eq] at this
      rcases this with (d | d) | d
      · exact hex_v6 d
      · subst d; decide
      · subst d; decide
    · rw [List.all_eq_true] at hz ⊢
      intro c hc
      have := hz c hc
      simp only [Bool.or_eq_true, beq_iff_eq] at this
      rcases this with (d | d) | d
      · subst d; decide
      · have := alpha_plain d
        simp only [plainChar, Bool.and_eq_true, bne_iff_ne] at this
        simp only [v6Char, Bool.and_eq_true, bne_iff_ne]
        exact ⟨⟨⟨this.1.1.1.2, this.1.1.2⟩, this.1.2⟩, this.2⟩
      · have := digit_plain d
        simp only [plainChar, Bool.and_eq_true, bne_iff_ne] at this
        simp only [v6Char, Bool.and_eq_true, bne_iff_ne]
        exact ⟨⟨⟨this.1.1.1.2, this.1.1.2⟩, this.1.2⟩, this.2⟩
  · rw [hx, List.count_append]
    omega

/-- every non-empty decimal number is a supported port -/
theorem decimal_is_port {p : Str} (hne : p ≠ []) (w : p.all isDigit = true) : isPort p = true := by
  simp only [isPort, Bool.and_eq_true, Bool.not_eq_true', List.isEmpty_eq_false_iff]
  refine ⟨hne, ?_⟩
  rw [List.all_eq_true] at w ⊢
  exact fun c hc => digit_plain (w c hc)

-- satisfiability: IPv4, domains, IPv6 in several textual shapes
example : isIPv4 "8.8.8.8".toList = true := by decide
example : isIPv4 "999.1.1.1".toList = false := by decide
example : isDomain "dns.example.".toList = true := by decide
example : isIPv6Text "::1".toList = true := by decide
example : isIPv6Text "2001:db8::1".toList = true := by decide
example : isIPv6Text "0:0:0:0:0:0:0:1".toList = true := by decide
example : isIPv6Text "::ffff:1.2.3.4".toList = true := by decide
example : isIPv6Text "fe80::1%eth0".toList = true := by decide
example : isIPv6Text "::".toList = true := by decide

/-! ## bracket trimming (D10) -/

/-- ★ `[x]` ↦ `x` for every `x`; every other string is returned unchanged; never a panic. -/
theorem trim_brackets_exact :
    (∀ x : Str, tryTrimIpv6Brackets? ('[' :: x ++ [']']) = some x) ∧
    (∀ s : Str, (¬ ∃ x, s = '[' :: x ++ [']']) → tryTrimIpv6Brackets? s = some s) :=
  ⟨trim_bracketed, trim_other⟩

/-- D10's witness: `[2001:db8::1]` keeps its last character. -/
example : tryTrimIpv6Brackets? "[2001:db8::1]".toList = some "2001:db8::1".toList := by decide

/-! ## where connections go -/

/-- "the scheme's default 53, 853, 443 or 80" -/
theorem default_ports :
    Scheme.defaultPort .none = "53".toList ∧ Scheme.defaultPort .udp = "53".toList ∧
    Scheme.defaultPort .tcp = "53".toList ∧ Scheme.defaultPort .tcpPipeline = "53".toList ∧
    Scheme.defaultPort .tls = "853".toList ∧ Scheme.defaultPort .tlsPipeline = "853".toList ∧
    Scheme.defaultPort .quic = "853".toList ∧ Scheme.defaultPort .doq = "853".toList ∧
    Scheme.defaultPort .https = "443".toList ∧ Scheme.defaultPort .h3 = "443".toList ∧
    Scheme.defaultPort .http = "80".toList := by decide

/-- ★ For every scheme (none = udp, helper schemes included), every host form (IPv4 literal or
    domain written plainly, IPv6 literal of any textual shape in brackets), with or without port
    and path, and no `dial_addr`: `NewUpstream` dials exactly `JoinHostPort(host, port or the
    scheme's default)` on the scheme's socket type, the TLS server name is the URL host (without
    brackets and port) and the HTTP host is the URL's `host[:port]`. -/
theorem dial_target (sch : Scheme) (host : Host) (port : Option Str) (path : Str)
    (ns : List (Str × Str))
    (w : (Case.mk sch host port path .none ns).wf = true) :
    ∃ plan, newUpstream (Case.mk sch host port path .none ns).addr [] = .ok plan ∧
      plan.dialAddr = joinHostPort host.bare (port.getD sch.defaultPort) ∧
      plan.network = sch.sock ∧
      (sch.tlsBased = true → plan.serverName = host.bare) ∧
      ((sch = .https ∨ sch = .http ∨ sch = .h3) → plan.httpHost = host.url ++ portSuffix port) := by
  refine ⟨_, newUpstream_case w, ?_, ?_, ?_, ?_⟩
  · simp [Case.expPlan, Case.expDial]
  · exact expNet_inet (by simp) (by simp)
  · cases sch <;> simp [Case.expPlan, Case.expServerName, Scheme.tlsBased]
  · rintro (h | h | h) <;> subst h <;> simp [Case.expPlan, Case.expHttpHost]

/-- non-vacuity: `tls://[2001:db8::1]` dials `[2001:db8::1]:853` with server name `2001:db8::1`. -/
example : newUpstream "tls://[2001:db8::1]".toList [] =
    .ok ⟨.tls, false, false, "tcp".toList, "[2001:db8::1]:853".toList, "2001:db8::1".toList, []⟩ := by
  decide

example : (Case.mk .tls (.v6 "2001:db8::1".toList) none [] .none []).wf = true := by decide

/-- ★ `dial_addr` given as IP or domain with or without port: that host and port (default port of
    the URL's scheme when missing) is dialled, whatever the URL host is; server name and HTTP host
    still derive from the URL. -/
theorem dial_override (sch : Scheme) (host : Host) (port : Option Str) (path : Str)
    (dh : Host) (dp : Option Str) (ns : List (Str × Str))
    (w : (Case.mk sch host port path (.host dh dp) ns).wf = true) :
    ∃ plan plan0,
      newUpstream (Case.mk sch host port path (.host dh dp) ns).addr (Dial.render (.host dh dp)) = .ok plan ∧
      newUpstream (Case.mk sch host port path .none ns).addr [] = .ok plan0 ∧
      plan.dialAddr = joinHostPort dh.bare (dp.getD sch.defaultPort) ∧
      plan.network = sch.sock ∧
      plan.serverName = plan0.serverName ∧ plan.httpHost = plan0.httpHost := by
  have w0 : (Case.mk sch host port path .none ns).wf = true := by
    simp only [Case.wf, Dial.wf, Bool.and_eq_true] at w ⊢
    exact ⟨⟨⟨w.1.1.1, w.1.1.2⟩, trivial⟩, w.2⟩
  refine ⟨_, _, newUpstream_case w, newUpstream_case w0, ?_, ?_, ?_, ?_⟩
  · simp [Case.expPlan, Case.expDial]
  · exact expNet_inet (by simp) (by simp)
  · simp [Case.expPlan, Case.expServerName]
  · simp [Case.expPlan, Case.expHttpHost]

/-- ★ `dial_addr = @name` on a stream based scheme (tcp/tls/http/https, +pipeline): network
    "unix", the address is passed unchanged, server name and HTTP host still derive from the URL. -/
theorem dial_override_unix (sch : Scheme) (host : Host) (port : Option Str) (path : Str)
    (name : Str) (ns : List (Str × Str)) (hs : sch.stream = true)
    (w : (Case.mk sch host port path (.unix name) ns).wf = true) :
    ∃ plan plan0,
      newUpstream (Case.mk sch host port path (.unix name) ns).addr ('@' :: name) = .ok plan ∧
      newUpstream (Case.mk sch host port path .none ns).addr [] = .ok plan0 ∧
      plan.dialAddr = '@' :: name ∧ plan.network = "unix".toList ∧
      plan.serverName = plan0.serverName ∧ plan.httpHost = plan0.httpHost := by
  have w0 : (Case.mk sch host port path .none ns).wf = true := by
    simp only [Case.wf, Dial.wf, Bool.and_eq_true] at w ⊢
    exact ⟨⟨⟨w.1.1.1, w.1.1.2⟩, trivial⟩, w.2⟩
  refine ⟨_, _, newUpstream_case w, newUpstream_case w0, ?_, ?_, ?_, ?_⟩
  · simp [Case.expPlan, Case.expDial]
  · simp [Case.expPlan, Case.expNet, hs]; decide
  · simp [Case.expPlan, Case.expServerName]
  · simp [Case.expPlan, Case.expHttpHost]

example : newUpstream "https://dns.example/dns-query".toList "@sock".toList =
    .ok ⟨.https, false, false, "unix".toList, "@sock".toList, "dns.example".toList, "dns.example".toList⟩ := by
  decide


/-- The known corner that is *outside* the property (`dial_addr` is documented as "an IP or a domain,
    port optional"; a bracketed IPv6 literal without port is neither): the brackets are kept and
    bracketed again, the result `[[x]]:port` cannot be dialled (no connection is made at all). -/
theorem bracketed_dial_addr_without_port_corner (url x d : Str) (hx : isV6Body x = true) :
    getDialAddr url ('[' :: x ++ [']']) d = '[' :: '[' :: x ++ ']' :: ']' :: ':' :: d := by
  have f := v6_facts hx
  have hl : lastIndexOf ':' ('[' :: x ++ [']']) ≠ none := by
    obtain ⟨a, b, e, nb⟩ := exists_last_split f.colon
    have e2 : '[' :: x ++ [']'] = ('[' :: a) ++ ':' :: (b ++ [']']) := by simp [e]
    rw [e2, lastIndexOf_append]
    · simp
    · simp [nb]
  have hi : indexOf ']' ('[' :: x ++ [']']) = some (x.length + 1) := by
    have := indexOf_append (c := ']') (a := '[' :: x) [] (by simp [f.rb])
    simpa using this
  have hs : splitHostPort ('[' :: x ++ [']']) = .error .missingPort := by
    unfold splitHostPort
    cases h : lastIndexOf ':' ('[' :: x ++ [']']) with
    | none => exact absurd h hl
    | some i =>
      simp only [List.cons_append] at hi
      simp [hi]
  simp only [List.cons_append] at hs
  simp [getDialAddr, hasAtPrefix, trySplitHostPort, hs, joinHostPort, f.colon]

/-- ★ the executable specification used as oracle for the real `NewUpstream` holds of the model on
    every case (every scheme × host form × port × path × dial_addr form × name service). -/
theorem dial_model_meets_spec (c : Case) : specDial c (modelDial c) = true :=
  Addr.dial_model_meets_spec c

/-- ★ the same for the pure helpers (`tryTrimIpv6Brackets`, `getDialAddr`, `tryRemovePort`,
    `dialNetworkTcpOrUnix`) on every structured form. -/
theorem form_model_meets_spec (c : FormCase) : specForm c (modelForm c) = true :=
  Addr.form_model_meets_spec c

theorem trim_model_meets_spec (s : Str) : specTrim s (tryTrimIpv6Brackets? s) = true :=
  Addr.trim_model_meets_spec s

theorem net_model_meets_spec (s : Str) : specNet s (dialNetworkTcpOrUnix s) = true :=
  Addr.net_model_meets_spec s

-- the specification is not vacuous: it rejects D10's observation (`[2001:db8::]:853`) …
example : specDial ⟨.tls, .v6 "2001:db8::1".toList, none, [], .none, []⟩
    ⟨"ok".toList, "tcp6|[2001:db8::]:853".toList, none, none, none⟩ = false := by decide
example : specDial ⟨.tls, .v6 "2001:db8::1".toList, none, [], .none, []⟩
    ⟨"ok".toList, "tcp6|[2001:db8::1]:853".toList, none, none, none⟩ = true := by decide
-- … a wrong default port, a server name taken from the dial address, a unix dial as tcp
example : specDial ⟨.https, .plain "dns.example".toList, none, [], .none, []⟩
    ⟨"ok".toList, "tcp4|dns.example:853".toList, none, none, none⟩ = false := by decide
example : specDial ⟨.tls, .plain "dns.example".toList, none, [], .host (.plain "127.0.0.1".toList) (some "PORT".toList), []⟩
    ⟨"ok".toList, "tcp4|127.0.0.1:PORT".toList, some "127.0.0.1".toList, none, none⟩ = false := by decide
example : specDial ⟨.tls, .plain "dns.example".toList, none, [], .host (.plain "127.0.0.1".toList) (some "PORT".toList), []⟩
    ⟨"ok".toList, "tcp4|127.0.0.1:PORT".toList, some "dns.example".toList, some "dns.example".toList, none⟩ = true := by decide
example : specDial ⟨.tcp, .plain "dns.example".toList, none, [], .unix "x".toList, []⟩
    ⟨"ok".toList, "tcp4|@x".toList, none, none, none⟩ = false := by decide

/-! ## TLS options -/

open MosVerif.TlsCfg

/-- every successful `makeTlsConfig` maps the options field by field -/
theorem mk_ok_fields (cfg : TlsConfig) (req : Bool) (g : GoTls) (h : makeTlsConfig cfg req = .ok g) :
    g.insecureSkipVerify = cfg.insecureSkipVerify ∧ g.rootCAs = caPool cfg.ca ∧
    g.clientCAs = caPool cfg.ca ∧
    g.clientAuth = (if cfg.verifyClientCert then .requireAndVerifyClientCert else .noClientCert) ∧
    (req = true → g.certificates ≠ .none) := by
  unfold makeTlsConfig at h
  split at h
  · cases h
  · rename_i hreq
    cases hca : cfg.ca <;> simp [hca] at h <;> (repeat' split at h) <;>
      simp_all [caPool] <;> (subst_vars; simp_all [FileRef.isEmpty]) <;>
      (cases req <;> simp_all)

/-- ★ (D11) `verify_client_cert` ⇒ the listener's `tls.Config` requires and verifies client
    certificates, against the configured CA. -/
theorem server_requires_client_cert (cfg : TlsConfig) (req : Bool) (g : GoTls)
    (hv : cfg.verifyClientCert = true) (h : makeTlsConfig cfg req = .ok g) :
    g.clientAuth = .requireAndVerifyClientCert ∧ g.clientCAs = caPool cfg.ca := by
  have := mk_ok_fields cfg req g h
  simp [this, hv]

/-- ★ verification is on unless explicitly disabled, against the configured CA (system roots
    when none is configured). -/
theorem upstream_verifies (cfg : TlsConfig) (req : Bool) (g : GoTls)
    (hi : cfg.insecureSkipVerify = false) (h : makeTlsConfig cfg req = .ok g) :
    g.insecureSkipVerify = false ∧ g.rootCAs = caPool cfg.ca := by
  have := mk_ok_fields cfg req g h
  simp [this, hi]

/-- a listener (`requireCert`) is never started without a certificate: the configuration is refused -/
theorem listener_needs_cert (cfg : TlsConfig) (g : GoTls) (h : makeTlsConfig cfg true = .ok g) :
    g.certificates ≠ .none := (mk_ok_fields cfg true g h).2.2.2.2 rfl

/-- ★ an upstream built from the options completes a handshake only with a server whose
    certificate chains to the configured CA (system roots by default), matches the server name
    and is within its validity — unless verification is explicitly disabled. -/
theorem upstream_accepts_only_verified (cfg : TlsConfig) (req : Bool) (g : GoTls) (p : Peer)
    (hi : cfg.insecureSkipVerify = false) (h : makeTlsConfig cfg req = .ok g)
    (hv : verdict g p = true) :
    p.chains (caPool cfg.ca) = true ∧ p.nameOk = true ∧ p.inValidity = true := by
  have := upstream_verifies cfg req g hi h
  simpa [verdict, this, and_assoc] using hv

/-- ★ a listener configured with `verify_client_cert` serves no client that has not presented a
    certificate chaining to the configured CA (and within validity). -/
theorem listener_serves_only_authenticated (cfg : TlsConfig) (g : GoTls) (cert : Option Peer)
    (hv : cfg.verifyClientCert = true) (h : makeTlsConfig cfg true = .ok g)
    (hs : serves g cert = true) :
    ∃ p, cert = some p ∧ p.chains (caPool cfg.ca) = true ∧ p.inValidity = true := by
  have := server_requires_client_cert cfg true g hv h
  cases cert with
  | none => simp [serves, this] at hs
  | some p => exact ⟨p, rfl, by simpa [serves, this] using hs⟩

-- non-vacuity: such configurations exist, and without the option everybody is served
example : makeTlsConfig ⟨.good 1, .good 1, .good 1, false, true, false⟩ true =
    .ok ⟨false, some 1, some 1, .requireAndVerifyClientCert, .file 1⟩ := by decide
example : serves ⟨false, some 1, some 1, .noClientCert, .file 1⟩ none = true := by decide
example : serves ⟨false, some 1, some 1, .requireAndVerifyClientCert, .file 1⟩ none = false := by decide
example : makeTlsConfig ⟨.unset, .unset, .unset, false, false, false⟩ false =
    .ok ⟨false, none, none, .noClientCert, .none⟩ := by decide

/-- ★ the model of `makeTlsConfig` satisfies the executable specification of the option mapping. -/
theorem cfg_model_meets_spec (cfg : TlsConfig) (req : Bool) :
    specCfg cfg (makeTlsConfig cfg req) = true := by
  cases h : makeTlsConfig cfg req with
  | ok g =>
    have f := mk_ok_fields cfg req g h
    cases hv : cfg.verifyClientCert <;> simp [specCfg, f, hv]
  | _ => rfl

/-- ★ the handshake outcome predicted by the model (option mapping + `verdict`/`serves` over the
    harness' certificate kinds) satisfies the property's statement about outcomes. -/
theorem hs_model_meets_spec (c : HsCase) : specHs c (modelHs c) = true := by
  obtain ⟨side, cfg, peer, swc⟩ := c
  cases side with
  | upstream =>
    cases h : makeTlsConfig cfg false with
    | ok g =>
      have f := mk_ok_fields cfg false g h
      cases peer <;> cases hca : cfg.ca <;> cases hi : cfg.insecureSkipVerify <;>
        simp [specHs, modelHs, h, CertKind.peer, verdict, f, hca, hi, caPool] <;>
        (rename_i i; first | (by_cases hid : i = 1 <;> simp [hid]) | (by_cases hid : i = 2 <;> simp [hid]))
    | _ => simp [specHs, modelHs, h]
  | listener =>
    cases h : makeTlsConfig cfg true with
    | ok g =>
      have f := mk_ok_fields cfg true g h
      cases hv : cfg.verifyClientCert
      · simp [specHs, hv]
      · cases peer <;> cases hca : cfg.ca <;>
          simp [specHs, modelHs, h, CertKind.peer, serves, f, hv, hca, caPool] <;> omega
    | _ => simp [specHs, modelHs, h]

/-- the specification rejects serving an unauthenticated client (D11's observation) … -/
example : specHs ⟨.listener, ⟨.good 1, .good 1, .good 1, false, true, false⟩, .absent, false⟩ (some true) = false := by
  decide
/-- … and an upstream that accepts a certificate of an unknown CA or a wrong name. -/
example : specHs ⟨.upstream, ⟨.unset, .unset, .good 1, false, false, false⟩, .unknownCA, false⟩ (some true) = false := by
  decide
example : specHs ⟨.upstream, ⟨.unset, .unset, .good 1, false, false, false⟩, .wrongName, false⟩ (some true) = false := by
  decide
example : specHs ⟨.upstream, ⟨.unset, .unset, .good 1, false, false, false⟩, .valid, false⟩ (some true) = true := by
  decide

/-! ## tie: pinned source facts -/

/-- `tryTrimIpv6Brackets`: guard, bracket test and slice bounds `s[1 : len(s)-1]` (D10 was `len(s)-2`). -/
theorem pins_trim :
    Facts.addr_trimLenCond = "len(s) < 2" ∧
    Facts.addr_trimBracketCond = "s[0] == '[' && s[len(s)-1] == ']'" ∧
    Facts.addr_trimSlice = "return s[1 : len(s)-1]" ∧
    Facts.addr_trimCall = "urlAddrHost := tryTrimIpv6Brackets(addrURL.Host)" := by decide

/-- `getDialAddr` / `dialNetworkTcpOrUnix`: precedence of `dial_addr`, the `@` tests, default port joins. -/
theorem pins_dialaddr :
    Facts.addr_gdaDialCond = "len(dialAddr) > 0" ∧
    Facts.addr_gdaUnixCond = "strings.HasPrefix(dialAddr, \"@\")" ∧
    Facts.addr_netUnixCond = "strings.HasPrefix(dialAddr, \"@\")" ∧
    Facts.addr_gdaPortConds = 2 ∧
    Facts.addr_gdaJoin0 = "return net.JoinHostPort(host, defaultPort)" ∧
    Facts.addr_gdaJoin1 = "return net.JoinHostPort(host, defaultPort)" := by decide

/-- `NewUpstream`: scheme defaulting, helper schemes, the per-scheme default ports (in source order:
    udp, tcp, tls, https/http, quic), every dial address comes from `getDialAddr(urlAddrHost,
    opt.DialAddr, …)`, the server name comes from the URL host. -/
theorem pins_newUpstream :
    Facts.addr_schemeDefaultCond = "!strings.Contains(addr, \"://\")" ∧
    Facts.addr_schemeDefaultStmt = "addr = \"udp://\" + addr" ∧
    Facts.addr_pipelineScheme = "addrURL.Scheme = addrURL.Scheme[:3]" ∧
    Facts.addr_h3Scheme = "addrURL.Scheme = \"https\"" ∧
    Facts.addr_defPortUdp = "\"53\"" ∧ Facts.addr_defPortTcp = "\"53\"" ∧
    Facts.addr_defPortTls = "\"853\"" ∧ Facts.addr_defPortHttp = "defaultPort" ∧
    Facts.addr_defPortQuic = "\"853\"" ∧
    Facts.addr_httpPortCond = "addrURL.Scheme == \"http\"" ∧
    Facts.addr_port80 = "defaultPort = \"80\"" ∧ Facts.addr_port443 = "defaultPort = \"443\"" ∧
    Facts.addr_gdaCalls = 5 ∧
    Facts.addr_sniTls = "tlsConfig.ServerName = tryRemovePort(urlAddrHost)" ∧
    Facts.addr_sniQuic = "tlsConfig.ServerName = tryRemovePort(urlAddrHost)" ∧
    Facts.addr_tlsClient = "tlsConn := tls.Client(conn, tlsConfig)" := by decide

/-- `makeTlsConfig` and its callers: which option is written to which `tls.Config` field (D11: the
    `ClientAuth` assignment), upstreams do not require a certificate, listeners do. -/
theorem pins_tls :
    Facts.tlscfg_insecure = "c.InsecureSkipVerify = cfg.InsecureSkipVerify" ∧
    Facts.tlscfg_vccCond = "cfg.VerifyClientCert" ∧
    Facts.tlscfg_clientAuth = "c.ClientAuth = tls.RequireAndVerifyClientCert" ∧
    Facts.tlscfg_caCond = "len(cfg.CA) > 0" ∧
    Facts.tlscfg_rootCAs = "c.RootCAs = pool" ∧ Facts.tlscfg_clientCAs = "c.ClientCAs = pool" ∧
    Facts.tlscfg_requireCond = "requireCert && (cfg.Cert == \"\" || cfg.Key == \"\") && !cfg.DebugUseTempCert" ∧
    Facts.tlscfg_upstreamCfgArg = "&cfg.Tls" ∧ Facts.tlscfg_upstreamArg = "false" ∧
    Facts.tlscfg_tcpArg = "true" ∧ Facts.tlscfg_httpArg = "true" ∧ Facts.tlscfg_quicArg = "true" ∧
    Facts.tlscfg_upstreamOpt = "opt := upstream.Opt{ DialAddr: cfg.DialAddr, Logger: r.subLoggerForUpstream(cfg.Tag), TLSConfig: tlsConfig, Control: controlSocket(controlOpts), }" ∧
    Facts.tlscfg_tcpServerHandshake = "tlsConn := tls.Server(c, s.tlsConfig)" := by
  refine ⟨?_, ?_, ?_, ?_, ?_, ?_, ?_, ?_, ?_, ?_, ?_, ?_, ?_, ?_⟩ <;> rfl


end MosVerif.C17
