/-
  C01 — Malformed input never crashes, hangs or wedges the proxy (decoder level).

  The model `unpackMsg` (Model/Wire.lean) transcribes the Go decoder with every slice
  expression that can panic made explicit (`sliceFrom`), and the 254-byte name scratch buffer
  overflow reported as `panic`.  The definitions are accepted by Lean only with their
  termination proofs (`nameLoop` terminates by the lexicographic measure
  (remaining pointer budget, remaining bytes)), so "decoding always terminates — including on
  compression-pointer loops" is part of the model being well-defined.

  The upstream side of the property (replies on every upstream transport: framing, the pipelined read
  loop's hand-over, the one-at-a-time connection's id check, the DoH body limit) is in Props/C01Up.lean.
-/
import MosVerif.Lemmas.WireSafe
import MosVerif.Lemmas.TranslatedCodecMsg
import MosVerif.Props.C01Up
namespace MosVerif.C01
open MosVerif.Wire

/-- evaluates the (well-founded, hence not `decide`-reducible) decoder on a literal by rewriting -/
macro "wire_eval" : tactic => `(tactic|
  simp [unpackMsg, sliceFrom, unpackQuestions, unpackResources, unpackQuestion, unpackResource, unpackRHdr,
    unpackRData, unpackName, nameLoop, hopLimit, nameCap, Bind.bind, Res.bind, be16, be32, u16At, u32At, bytesAt])

/-- ★ No byte string makes the message decoder panic (index/slice out of range, scratch
    buffer overflow).  No bound on the length of `msg`. -/
theorem unpackMsg_noPanic (msg : Bytes) : unpackMsg msg ≠ .panic := by
  rw [unpackMsg_eq]
  have h := (unpackMsgEnd_safe msg).1
  cases hm : unpackMsgEnd msg with
  | ok p => simp [Bind.bind, Res.bind]
  | err => simp [Bind.bind, Res.bind]
  | panic => exact absurd hm h

/-- ★ Totality: every input is either rejected or accepted (with a decoded message);
    `unpackMsg` is a total function, there is no third outcome. -/
theorem unpackMsg_err_or_ok (msg : Bytes) : unpackMsg msg = .err ∨ ∃ m, unpackMsg msg = .ok m := by
  cases h : unpackMsg msg with
  | ok m => exact Or.inr ⟨m, rfl⟩
  | err => exact Or.inl rfl
  | panic => exact absurd h (unpackMsg_noPanic msg)

/-- ★ Every name the decoder returns fits the fixed scratch buffer, and the offset it
    continues from stays inside the message — this is what makes every later `msg[off:]` safe. -/
theorem unpackName_bounds (msg : Bytes) (off : Nat) (h : off ≤ msg.length) (n : Name) (o : Nat)
    (e : unpackName msg off = .ok (n, o)) : n.length ≤ 254 ∧ o ≤ msg.length :=
  ⟨unpackName_len msg off h n o e, (unpackName_safe msg off h).2 n o e⟩

/-- ★ A name is decoded without panic from *any* offset inside the message, whatever the bytes. -/
theorem unpackName_noPanic (msg : Bytes) (off : Nat) (h : off ≤ msg.length) :
    unpackName msg off ≠ .panic := (unpackName_safe msg off h).1

/-- Decoding a record or a question from any in-range offset never panics and never
    returns an offset outside the message. -/
theorem unpackResource_safe' (msg : Bytes) (off : Nat) (h : off ≤ msg.length) :
    unpackResource msg off ≠ .panic ∧ ∀ r o, unpackResource msg off = .ok (r, o) → o ≤ msg.length :=
  unpackResource_safe msg off h

/-- A compression pointer that points at itself is rejected (not followed for ever). -/
example : unpackMsg [0,1, 1,0, 0,1, 0,0, 0,0, 0,0, 0xC0,12, 0,1, 0,1] = .err := by wire_eval
/-- Two pointers pointing at each other are rejected. -/
example : unpackMsg [0,1, 1,0, 0,1, 0,0, 0,0, 0,0, 0xC0,14, 0xC0,12, 0,1, 0,1] = .err := by wire_eval
/-- A length octet that runs past the end, a reserved label prefix and a lying count are rejected. -/
example : unpackMsg [0,1, 1,0, 0,1, 0,0, 0,0, 0,0, 5, 97] = .err := by wire_eval
example : unpackMsg [0,1, 1,0, 0,1, 0,0, 0,0, 0,0, 0x40, 0, 0,1, 0,1] = .err := by wire_eval
example : unpackMsg [0,1, 1,0, 0xFF,0xFF, 0,0, 0,0, 0,0] = .err := by wire_eval
/-- Non-vacuity: a well-formed query with one question is accepted. -/
example : ∃ m, unpackMsg [0,1, 1,0, 0,1, 0,0, 0,0, 0,0, 1,97, 0, 0,1, 0,1] = .ok m ∧ m.questions.length = 1 :=
  by wire_eval

/-- tie: the decoder's guards (hop limit, `& 0xC0`, `len(name)+1+c+1 > 255`, every bound test) are no longer
    pinned as text — `Lemmas/TranslatedCodec*.lean` prove the model equal to the translation of the current
    source. What the translation does NOT see is pinned here: the scratch slice aliases the builder's array
    (`GoSem.builderToName` is the hand-written semantics of exactly these two fragments). -/
theorem pins :
    Facts.name_scratch = "name := n.buf[:0]" ∧
    Facts.name_toName = "{ buf := pool.GetBuf(int(b.l)) copy(buf, b.buf[:]) return Name(buf) }" := by decide

end MosVerif.C01
