/-
  C06 — One-at-a-time upstream connections are reused only when clean.

  All theorems quantify over an ARBITRARY list of actions `acts`, i.e. over every
  interleaving of the callers, workers, dial goroutines, idle timers, `Close`, context
  cancellations and the server's replies/aborts (see MosVerif/Model/Reuse.lean); the proofs
  are by induction over that list through the invariant of MosVerif/Lemmas/ReuseInv.lean.
-/
import MosVerif.Model.Reuse
import MosVerif.Lemmas.ReuseInv
import MosVerif.Generated.Facts
namespace MosVerif.C06
set_option linter.unusedSimpArgs false
open MosVerif.Reuse

/-- the states reachable by any schedule -/
abbrev reach (acts : List Act) : State := exec State.init acts

/-- ★ central theorem: the observable history of every schedule satisfies the specification
    that is used as the oracle for the implementation's histories. -/
theorem model_meets_spec (acts : List Act) : spec (reach acts).hist = true :=
  (reach_inv acts).ok

/-- … in particular the schedule the driver derives from a harness script, whatever the
    connection choices reported by the implementation. -/
theorem script_meets_spec (nex : Nat) (picks : List Nat) (ops : List Op) :
    spec (exec State.init (plan nex picks ops)).hist = true :=
  model_meets_spec _

/-- ★ at most one query is outstanding on a connection (at most one reply is owed by the
    server), and while one is outstanding the connection is marked as serving. -/
theorem one_outstanding (acts : List Act) (c : Nat) :
    ((reach acts).conn c).pending.length ≤ 1 ∧
    (((reach acts).conn c).pending.length = 1 → ((reach acts).conn c).serving = true) := by
  have h := (reach_inv acts).conn c
  simp only [ConnOK, COK] at h
  refine ⟨h.2.2.1, fun h1 => h.2.2.2.1 ?_⟩
  intro h0; rw [h0] at h1; simp at h1

/-- ★ a connection in the idle set is not serving, is owned by no goroutine, owes no reply and
    holds no half-consumed reply (the reply to every query ever written to it has been consumed
    completely), and never saw a failed or undecodable I/O (its last exchange ended without
    error). -/
theorem idle_clean (acts : List Act) (c : Nat) (hc : c ∈ (reach acts).idle) :
    ((reach acts).conn c).serving = false ∧ ((reach acts).conn c).worker = none ∧
    ((reach acts).conn c).pending = [] ∧ ((reach acts).conn c).halfRead = false ∧
    (mon (reach acts).hist).out c = [] ∧ (mon (reach acts).hist).dirty c = false := by
  have h := (reach_inv acts).conn c
  simp only [ConnOK, COK] at h
  have hi := h.2.2.2.2.1 hc
  exact ⟨hi.2.1, hi.1, hi.2.2.1, hi.2.2.2.1, by rw [h.1]; exact hi.2.2.1, hi.2.2.2.2.1⟩

/-- the monitor never recovers: once `ok` is false it stays false -/
theorem monStep_ok_mono (m : Mon) (ev : Event) (h : (monStep m ev).ok = true) : m.ok = true := by
  cases ev with
  | ret e r => cases r <;> simp [monStep] at h ⊢ <;> simp_all
  | _ => simp [monStep] at h ⊢ <;> simp_all

theorem foldl_ok_mono (l : List Event) (m : Mon) (h : (l.foldl monStep m).ok = true) : m.ok = true := by
  induction l generalizing m with
  | nil => exact h
  | cons x xs ih => exact monStep_ok_mono _ _ (ih _ h)

/-- `spec` is prefix closed -/
theorem spec_prefix (h₁ h₂ : List Event) (h : spec (h₁ ++ h₂) = true) : spec h₁ = true := by
  simp only [spec, mon_append] at h
  exact foldl_ok_mono _ _ h

/-- what `spec` says about returned messages -/
theorem spec_own_reply (h : List Event) (hs : spec h = true) (e q : Nat)
    (hm : Event.ret e (.ok q) ∈ h) : q = e := by
  obtain ⟨h₁, h₂, rfl⟩ := List.append_of_mem hm
  have := spec_prefix (h₁ ++ [Event.ret e (.ok q)]) h₂ (by simpa using hs)
  simp [spec, monStep] at this
  exact this.2

/-- ★ an exchange that returns a message returns the reply to its own query (given a server
    that sends one reply per query, in order — that is how `workerReadOk` labels replies). -/
theorem own_reply (acts : List Act) (e q : Nat) (h : Event.ret e (.ok q) ∈ (reach acts).hist) : q = e :=
  spec_own_reply _ (model_meets_spec acts) e q h

/-- the result channel of an attempt only ever carries the reply to that exchange's query -/
theorem own_reply_chan (acts : List Act) (e a q : Nat) (h : (reach acts).chan e a = some (.ok q)) : q = e :=
  (reach_inv acts).chan e a q h

theorem monStep_out_le_one (m : Mon) (ev : Event) (c : Nat) (hok : (monStep m ev).ok = true)
    (hl : (m.out c).length ≤ 1) : ((monStep m ev).out c).length ≤ 1 := by
  cases ev with
  | wr c' q =>
    simp only [monStep] at hok ⊢
    by_cases hc : c = c'
    · subst hc; simp at hok; simp [hok.1.1.2]
    · simp [hc, hl]
  | rd c' q =>
    simp only [monStep]
    by_cases hc : c = c'
    · subst hc; simp; omega
    · simp [hc, hl]
  | bad c' q =>
    simp only [monStep]
    by_cases hc : c = c'
    · subst hc; simp; omega
    · simp [hc, hl]
  | ret e r => cases r <;> simpa [monStep] using hl
  | _ => simpa [monStep] using hl

theorem foldl_out_le_one (l : List Event) (m : Mon) (c : Nat) (hok : (l.foldl monStep m).ok = true)
    (hl : (m.out c).length ≤ 1) : ((l.foldl monStep m).out c).length ≤ 1 := by
  induction l generalizing m with
  | nil => exact hl
  | cons ev l ih =>
    simp only [List.foldl_cons] at hok ⊢
    exact ih _ hok (monStep_out_le_one m ev c (foldl_ok_mono l _ hok) hl)

/-- what `spec` says about outstanding queries: in every prefix of the history at most one
    query is outstanding per connection -/
theorem mon_out_le_one (h : List Event) (c : Nat) (hs : spec h = true) : ((mon h).out c).length ≤ 1 :=
  foldl_out_le_one h Mon.init c hs (by simp [Mon.init])

/-- what `spec` says about reuse: whenever a connection is handed to an exchange, nothing is
    outstanding on it, no I/O on it has failed, its previous user's reply has been drained,
    and it has not been closed by the client (unless the whole transport was closed). -/
theorem spec_use_clean (h₁ h₂ : List Event) (c q : Nat) (hs : spec (h₁ ++ Event.use c q :: h₂) = true) :
    (mon h₁).out c = [] ∧ (mon h₁).dirty c = false ∧ (mon h₁).ab c = false ∧
    ((mon h₁).closed c = true → (mon h₁).tclosed = true) := by
  have := spec_prefix (h₁ ++ [Event.use c q]) h₂ (by simpa using hs)
  simp [spec, monStep] at this
  refine ⟨this.1.1.1.2, this.1.1.2, this.1.2, fun hc => ?_⟩
  rcases this.2 with h | h
  · rw [hc] at h; exact Bool.noConfusion h
  · exact h

theorem spec_one_outstanding (h₁ h₂ : List Event) (c : Nat) (hs : spec (h₁ ++ h₂) = true) :
    ((mon h₁).out c).length ≤ 1 :=
  mon_out_le_one h₁ c (spec_prefix h₁ h₂ hs)

/-- the "abandoned and not drained" mark of the monitor persists until the reply is consumed -/
theorem ab_persists (l : List Event) (m : Mon) (c : Nat) (hab : m.ab c = true)
    (hno : ∀ q, Event.rd c q ∉ l) : (l.foldl monStep m).ab c = true := by
  induction l generalizing m with
  | nil => exact hab
  | cons ev l ih =>
    apply ih
    · cases ev with
      | rd c' q =>
        have : c ≠ c' := fun hc => hno q (by simp [hc])
        simp [monStep, this, hab]
      | ret e r => cases r <;> simp [monStep, hab]
      | _ => simp [monStep, hab]
    · intro q hq; exact hno q (List.mem_cons_of_mem _ hq)

/-- a connection in the idle set never carries the mark "its user gave up and the reply was
    not drained" -/
theorem idle_not_abandoned (acts : List Act) (c : Nat) (hc : c ∈ (reach acts).idle) :
    (mon (reach acts).hist).ab c = false := by
  have h := (reach_inv acts).conn c
  simp only [ConnOK, COK] at h
  exact (h.2.2.2.2.1 hc).2.2.2.2.2.2

/-- `abandoned_drained_or_closed`: if the caller of exchange `e` gives up (`ret e ctx`) while
    connection `c` is in `e`'s hands, and `c` is later found in the idle set, then in between
    the reply was drained from `c` (an `rd c _` event, which only `workerReadOk` emits). -/
theorem abandoned_drained_or_closed (acts : List Act) (c e : Nat) (h₁ h₂ : List Event)
    (hh : (reach acts).hist = h₁ ++ Event.ret e .ctx :: h₂)
    (hown : (mon h₁).owner c = some e) (hc : c ∈ (reach acts).idle) :
    ∃ q, Event.rd c q ∈ h₂ := by
  apply Classical.byContradiction
  intro hno
  have hno : ∀ q, Event.rd c q ∉ h₂ := fun q hq => hno ⟨q, hq⟩
  have hab := idle_not_abandoned acts c hc
  rw [hh, mon_append, List.foldl_cons] at hab
  have := ab_persists h₂ (monStep (mon h₁) (.ret e .ctx)) c (by simp [monStep, hown]) hno
  rw [this] at hab
  exact Bool.noConfusion hab

/-- `rd` events are emitted by `workerReadOk` only, i.e. by the worker goroutine that owns the
    connection, after it consumed the complete reply. -/
theorem rd_only_by_workerReadOk (s : State) (a : Act) (c q : Nat)
    (hnew : Event.rd c q ∈ (step s a).hist) (hold : Event.rd c q ∉ s.hist) :
    a = .workerReadOk c := by
  unfold step at hnew
  split at hnew
  · exact absurd hnew hold
  · cases a <;> simp only [stepCore, stepCoreG] at hnew
    case workerReadOk c' =>
      repeat' split at hnew
      all_goals simp [State.emit, State.setConn, hold] at hnew
      rw [hnew.1]
    all_goals
      exfalso
      repeat' split at hnew
      all_goals
        simp [State.emit, State.setConn, State.setCaller, State.finish, State.spawn, State.rcClose,
          State.netClose, hold] at hnew
      all_goals
        repeat' split at hnew
      all_goals
        simp [State.emit, State.setConn, hold] at hnew

/-- `no_double_use`: neither `panic("call exitIdle on a busy connection")` nor
    `panic("call enterIdle on a idle connection")` is reachable, and a connection is never
    handed to an exchange while another goroutine still owns it. -/
theorem no_double_use (acts : List Act) : (reach acts).fault = none :=
  (reach_inv acts).fault

/-- the last attempt (`retry > 5`) does not consult the pool — nor `t.closed` — and dials: the
    idle set, every connection and the history are untouched. -/
theorem last_attempt_dials (s : State) (e : Nat) (pick : Option Nat) (hf : s.fault = none)
    (hp : (s.caller e).phase = .get) (hr : (s.caller e).retry > 5) :
    let s' := step s (.getIdle e pick)
    (s'.caller e).phase = .dialing ∧ (s'.caller e).dial = .dialing ∧ s'.idle = s.idle ∧ s'.all = s.all ∧
    s'.conn = s.conn ∧ s'.hist = s.hist := by
  simp [step, stepCore, stepCoreG, hf, hp, hr, State.setCaller]

/-- Assumption A1 is needed: if the idle timer of a freshly dialled connection fires before the
    dial goroutine's `rc.exitIdle()` (possible only when `IdleTimeout` is shorter than the few
    instructions between the two calls) and the caller has given up meanwhile, the dial
    goroutine's `releaseConn(rc, nil)` reaches `panic("call enterIdle on a idle connection")`.
    (Replayed on the real code with `IdleTimeout: time.Nanosecond`.) -/
theorem early_timer_panics :
    (execRacy State.init [.start 1, .cancel 1, .getIdle 1 none, .giveUp 1, .dialDone 1 true, .idleTimer 0,
      .dialExit 0, .dialDeliver 0 false, .workerRelA 0]).fault = some .enterIdleIdle := by decide

/-- … while under A1 the same schedule is harmless. -/
example : (reach [.start 1, .cancel 1, .getIdle 1 none, .giveUp 1, .dialDone 1 true, .idleTimer 0,
      .dialExit 0, .dialDeliver 0 false, .workerRelA 0, .workerRelB 0]).idle = [0] := by decide

/-! ### non-vacuity -/

/-- a schedule that puts a connection into the idle set (so `idle_clean` is not vacuous) … -/
def demoActs : List Act :=
  [.start 1, .getIdle 1 none, .dialDone 1 true, .dialExit 0, .dialDeliver 0 true, .workerWrite 0 false,
   .workerReadPart 0, .srvReply 0 true, .workerReadOk 0, .workerPost 0, .recvRes 1, .workerRelA 0, .workerRelB 0]

example : (reach demoActs).idle = [0] := by decide
example : (reach demoActs).hist = [.dial 0, .use 0 1, .wr 0 1, .rd 0 1, .ret 1 (.ok 1)] := by decide
/-- … and reuses it -/
example : (reach (demoActs ++ [.start 2, .getIdle 2 (some 0), .workerWrite 0 false])).hist =
    [.dial 0, .use 0 1, .wr 0 1, .rd 0 1, .ret 1 (.ok 1), .use 0 2, .wr 0 2] := by decide
/-- a caller that gives up while its query is outstanding: the connection stays with the
    worker, and comes back only after the reply was drained -/
example : (reach [.start 1, .getIdle 1 none, .dialDone 1 true, .dialExit 0, .dialDeliver 0 true,
    .workerWrite 0 false, .cancel 1, .giveUp 1]).idle = [] := by decide
example : (reach [.start 1, .getIdle 1 none, .dialDone 1 true, .dialExit 0, .dialDeliver 0 true,
    .workerWrite 0 false, .cancel 1, .giveUp 1, .srvReply 0 true, .workerReadOk 0, .workerPost 0, .workerRelA 0, .workerRelB 0]).idle
    = [0] := by decide

/-- the specification is not vacuous: it rejects … a second query on a connection that still owes a reply, -/
example : spec [.dial 0, .use 0 1, .wr 0 1, .ret 1 .ctx, .use 0 2] = false := by decide
example : spec [.dial 0, .use 0 1, .wr 0 1, .use 0 2, .wr 0 2] = false := by decide
/-- … a foreign reply, -/
example : spec [.dial 0, .use 0 1, .wr 0 1, .rd 0 1, .ret 2 (.ok 1)] = false := by decide
/-- … reuse after an error or an undecodable reply, -/
example : spec [.dial 0, .use 0 1, .wr 0 1, .err 0, .ret 1 .err, .use 0 2] = false := by decide
example : spec [.dial 0, .use 0 1, .wr 0 1, .bad 0 1, .ret 1 .err, .use 0 2] = false := by decide
/-- … reuse of a connection the client closed, -/
example : spec [.dial 0, .use 0 1, .wr 0 1, .rd 0 1, .ret 1 (.ok 1), .cl 0, .use 0 2] = false := by decide
/-- … a worker that puts another exchange's bytes on the connection; -/
example : spec [.dial 0, .use 0 1, .wr 0 9999] = false := by decide
/-- and it accepts the drained hand-over. -/
example : spec [.dial 0, .use 0 1, .wr 0 1, .ret 1 .ctx, .rd 0 1, .use 0 2, .wr 0 2, .rd 0 2, .ret 2 (.ok 2)] = true := by
  decide

/-- tie (pinned source facts): who calls `releaseConn` (the worker goroutine of
    `exchangeConnCtx` and the dial goroutine, nobody else), nobody else inserts into
    `idleConns`, `enterIdle` precedes the insertion, the retry condition and the `retry <= 5`
    guard in front of `getIdleConn` (the last attempt dials), the closed check in
    `exitIdle`, the worker's private copy of the payload, the idle timer's test, both reads of
    `ReadMsgFromTCP` are `io.ReadFull`. -/
theorem pins :
    Facts.reuse_retryCond = "!isNewConn && retry <= 5 && !ctxIsDone(ctx)" ∧
    Facts.reuse_poolGuard = "retry <= 5" ∧ Facts.reuse_retryConds = 2 ∧ Facts.reuse_getIdleCalls = 1 ∧
    Facts.reuse_poolGuardStmt = "if retry <= 5 { c, err = t.getIdleConn() if err != nil { errs = append(errs, err) return nil, joinErr(errs) } }" ∧
    Facts.reuse_dialWhenNil = "c == nil" ∧
    Facts.reuse_relCallsWorker = 1 ∧ Facts.reuse_relCallsDial = 1 ∧ Facts.reuse_relCallsExchange = 0 ∧
    Facts.reuse_relCallsExchangeConn = 0 ∧ Facts.reuse_relCallsGetIdle = 0 ∧ Facts.reuse_relCallsClose = 0 ∧
    Facts.reuse_idleInsertsExchange = 0 ∧ Facts.reuse_idleInsertsWorker = 0 ∧ Facts.reuse_idleInsertsDial = 0 ∧
    Facts.reuse_workerGo = "go func() { resp, err := t.exchangeConn(payloadCopy, c) pool.ReleaseBuf(payloadCopy) resChan <- res{m: resp, err: err} t.releaseConn(c, err) }()" ∧
    Facts.reuse_payloadCopy = "payloadCopy := copyMsg(payload)" ∧
    Facts.reuse_workerSelect = "case <-ctx.Done(): return nil, context.Cause(ctx)" ∧
    Facts.reuse_releaseBody = "{ if err != nil { debugLogTransportConnClosed(rc.c, t.logger, err) rc.close() } else { rc.enterIdle() } t.m.Lock() if t.closed { t.m.Unlock() if err == nil { rc.close() } return } if err != nil { delete(t.conns, rc) } else { t.idleConns[rc] = struct{}{} } t.m.Unlock() }" ∧
    Facts.reuse_dialAbandon = "case <-callCtx.Done(): if rc != nil { t.releaseConn(rc, nil) }" ∧
    Facts.reuse_dialExitIdle = "rc.exitIdle()" ∧
    Facts.reuse_getIdleLoop = "for c := range t.idleConns { delete(t.idleConns, c) if closed := c.exitIdle(); closed { delete(t.conns, c) continue } return c, nil }" ∧
    Facts.reuse_exitIdleBody = "{ c.m.Lock() defer c.m.Unlock() if c.closed { return true } if c.serving { panic(\"call exitIdle on a busy connection\") } c.serving = true c.idleTimer.Stop() err := c.c.SetReadDeadline(time.Time{}) return err != nil }" ∧
    Facts.reuse_enterIdleBody = "{ c.m.Lock() defer c.m.Unlock() if !c.serving { panic(\"call enterIdle on a idle connection\") } c.serving = false c.idleTimer.Reset(c.idleTimeout) }" ∧
    Facts.reuse_closeIfIdleBody = "{ c.m.Lock() serving := c.serving if !serving { c.closed = true defer c.c.Close() } c.m.Unlock() }" ∧
    Facts.reuse_exchangeConnWrite = "_, err := c.c.Write(payload)" ∧
    Facts.reuse_exchangeConnRead = "r, _, err := dnsutils.ReadMsgFromTCP(c.c)" ∧
    Facts.reuse_readFullCalls = 2 ∧
    Facts.reuse_queryTimeout = 6000000000 := by
  (repeat' apply And.intro) <;> rfl

end MosVerif.C06
