/-
  C06 — One-at-a-time upstream connections are reused only when clean.

  All theorems quantify over an ARBITRARY list of actions `acts`, i.e. over every
  interleaving of the callers, workers, dial goroutines, idle timers, `Close`, context
  cancellations and the server's replies/repeated frames/aborts (see MosVerif/Model/Reuse.lean);
  the proofs are by induction over that list through the invariants of
  MosVerif/Lemmas/ReuseInv.lean (safety, holds against ANY server: `reachAdv`) and
  MosVerif/Lemmas/ReuseContent.lean (whose reply it is; needs a server that does not forge
  frames but may repeat them: `reach`).
-/
import MosVerif.Model.Reuse
import MosVerif.Lemmas.ReuseInv
import MosVerif.Lemmas.ReuseContent
import MosVerif.Lemmas.TranslatedC06
import MosVerif.Generated.Facts
namespace MosVerif.C06
set_option linter.unusedSimpArgs false
open MosVerif.Reuse

/-- the states reachable by any schedule, against a server that answers in order and may send
    frames it already sent once more (`srvStray` is disabled) -/
abbrev reach (acts : List Act) : State := exec State.init acts

/-- the states reachable by any schedule against a server that may send arbitrary frames -/
abbrev reachAdv (acts : List Act) : State := execAdv State.init acts

/-- ★ central theorem: the observable history of every schedule satisfies the specification
    that is used as the oracle for the implementation's histories. -/
theorem model_meets_spec (acts : List Act) : spec (reach acts).hist = true := by
  simp [spec, (reach_inv acts).ok, (reachC_inv acts).own]

/-- … and against an arbitrary server every clause but "whose reply it is" still holds. -/
theorem adv_meets_safe (acts : List Act) : safe (reachAdv acts).hist = true :=
  (reachAdv_inv acts).ok

/-- … in particular the schedule the driver derives from a harness script, whatever the
    connection choices reported by the implementation. -/
theorem script_meets_spec (nex : Nat) (picks : List Nat) (ops : List Op) :
    spec (exec State.init (plan nex picks ops)).hist = true :=
  model_meets_spec _

theorem one_outstanding_of_inv {s : State} (hi : Inv s) (c : Nat) :
    (s.conn c).pending.length ≤ 1 ∧ ((s.conn c).pending.length = 1 → (s.conn c).serving = true) := by
  have h := hi.conn c
  simp only [ConnOK, COK] at h
  refine ⟨h.2.2.1, fun h1 => h.2.2.2.1 ?_⟩
  intro h0; rw [h0] at h1; simp at h1

/-- ★ at most one query is outstanding on a connection, and while one is outstanding the
    connection is marked as serving. -/
theorem one_outstanding (acts : List Act) (c : Nat) :
    ((reach acts).conn c).pending.length ≤ 1 ∧
    (((reach acts).conn c).pending.length = 1 → ((reach acts).conn c).serving = true) :=
  one_outstanding_of_inv (reach_inv acts) c

theorem one_outstanding_adv (acts : List Act) (c : Nat) :
    ((reachAdv acts).conn c).pending.length ≤ 1 ∧
    (((reachAdv acts).conn c).pending.length = 1 → ((reachAdv acts).conn c).serving = true) :=
  one_outstanding_of_inv (reachAdv_inv acts) c

theorem idle_clean_of_inv {s : State} (hi : Inv s) (c : Nat) (hc : c ∈ s.idle) :
    (s.conn c).serving = false ∧ (s.conn c).worker = none ∧ (s.conn c).pending = [] ∧
    (s.conn c).halfRead = false ∧ (mon s.hist).out c = [] ∧ (mon s.hist).dirty c = false := by
  have h := hi.conn c
  simp only [ConnOK, COK] at h
  have hi := h.2.2.2.2.1 hc
  exact ⟨hi.2.1, hi.1, hi.2.2.1, hi.2.2.2.1, by rw [h.1]; exact hi.2.2.1, hi.2.2.2.2.1⟩

/-- ★ a connection in the idle set is not serving, is owned by no goroutine, has no query
    outstanding and no half-consumed frame, and never saw a failed I/O, an undecodable frame or
    a frame with a foreign id (its last exchange ended without error). -/
theorem idle_clean (acts : List Act) (c : Nat) (hc : c ∈ (reach acts).idle) :
    ((reach acts).conn c).serving = false ∧ ((reach acts).conn c).worker = none ∧
    ((reach acts).conn c).pending = [] ∧ ((reach acts).conn c).halfRead = false ∧
    (mon (reach acts).hist).out c = [] ∧ (mon (reach acts).hist).dirty c = false :=
  idle_clean_of_inv (reach_inv acts) c hc

theorem idle_clean_adv (acts : List Act) (c : Nat) (hc : c ∈ (reachAdv acts).idle) :
    ((reachAdv acts).conn c).serving = false ∧ ((reachAdv acts).conn c).worker = none ∧
    ((reachAdv acts).conn c).pending = [] ∧ ((reachAdv acts).conn c).halfRead = false ∧
    (mon (reachAdv acts).hist).out c = [] ∧ (mon (reachAdv acts).hist).dirty c = false :=
  idle_clean_of_inv (reachAdv_inv acts) c hc

/-- the monitor never recovers: once `ok` is false it stays false -/
theorem monStep_ok_mono (m : Mon) (ev : Event) (h : (monStep m ev).ok = true) : m.ok = true := by
  cases ev with
  | ret e r => cases r <;> simp [monStep] at h ⊢ <;> simp_all
  | rd c q i => simp only [monStep] at h; (repeat' split at h) <;> exact h
  | _ => simp [monStep] at h ⊢ <;> simp_all

theorem monStep_own_mono (m : Mon) (ev : Event) (h : (monStep m ev).own = true) : m.own = true := by
  cases ev with
  | ret e r => cases r <;> simp [monStep] at h ⊢ <;> simp_all
  | rd c q i => simp only [monStep] at h; (repeat' split at h) <;> exact h
  | _ => simp [monStep] at h ⊢ <;> simp_all

theorem foldl_ok_mono (l : List Event) (m : Mon) (h : (l.foldl monStep m).ok = true) : m.ok = true := by
  induction l generalizing m with
  | nil => exact h
  | cons x xs ih => exact monStep_ok_mono _ _ (ih _ h)

theorem foldl_own_mono (l : List Event) (m : Mon) (h : (l.foldl monStep m).own = true) : m.own = true := by
  induction l generalizing m with
  | nil => exact h
  | cons x xs ih => exact monStep_own_mono _ _ (ih _ h)

/-- `safe` and `spec` are prefix closed -/
theorem safe_prefix (h₁ h₂ : List Event) (h : safe (h₁ ++ h₂) = true) : safe h₁ = true := by
  simp only [safe, mon_append] at h
  exact foldl_ok_mono _ _ h

theorem spec_safe (h : List Event) (hs : spec h = true) : safe h = true := by
  simp [spec] at hs; exact hs.1

theorem spec_prefix (h₁ h₂ : List Event) (h : spec (h₁ ++ h₂) = true) : spec h₁ = true := by
  simp only [spec, mon_append, Bool.and_eq_true] at h ⊢
  exact ⟨foldl_ok_mono _ _ h.1, foldl_own_mono _ _ h.2⟩

/-- what `spec` says about returned messages -/
theorem spec_own_reply (h : List Event) (hs : spec h = true) (e q : Nat)
    (hm : Event.ret e (.ok q) ∈ h) : q = e := by
  obtain ⟨h₁, h₂, rfl⟩ := List.append_of_mem hm
  have := spec_prefix (h₁ ++ [Event.ret e (.ok q)]) h₂ (by simpa using hs)
  simp [spec, monStep] at this
  exact this.2.2

/-- ★ an exchange that returns a message returns the reply to its own query — given a server
    that answers queries in order (that is how `srvReply` labels frames) and that may send
    frames it already sent once more, at any time (`srvDup`): since 31b269e a duplicated reply
    no longer shifts the stream. -/
theorem own_reply (acts : List Act) (e q : Nat) (h : Event.ret e (.ok q) ∈ (reach acts).hist) : q = e :=
  spec_own_reply _ (model_meets_spec acts) e q h

/-- the result channel of an attempt only ever carries the reply to that exchange's query -/
theorem own_reply_chan (acts : List Act) (e a q : Nat) (h : (reach acts).chan e a = some (.ok q)) : q = e :=
  (reachC_inv acts).chan e a q h

/-- how the monitor's `acc` is filled: `q ∈ acc e` only if a complete frame with content `q`
    was consumed on a connection that was in `e`'s hands, and the frame carried the wire id of
    the query last received on that connection -/
theorem acc_origin (l : List Event) (m : Mon) (e q : Nat) (h : q ∈ (l.foldl monStep m).acc e) :
    q ∈ m.acc e ∨ ∃ l₁ c i l₂, l = l₁ ++ Event.rd c q i :: l₂ ∧ (l₁.foldl monStep m).wid c = i ∧
      (l₁.foldl monStep m).owner c = some e := by
  induction l generalizing m with
  | nil => exact Or.inl h
  | cons ev l ih =>
    rcases ih (monStep m ev) h with h1 | ⟨l₁, c, i, l₂, rfl, hw, ho⟩
    · -- q entered acc at this very event, or was there before
      by_cases hq : q ∈ m.acc e
      · exact Or.inl hq
      · right
        cases ev with
        | rd c q' i =>
          simp only [monStep] at h1
          split at h1
          · rename_i hid
            split at h1
            · rename_i e' hown
              by_cases he : e = e'
              · subst he
                simp at h1
                rcases h1 with rfl | h1
                · exact ⟨[], c, i, l, rfl, hid.symm, hown⟩
                · exact absurd h1 hq
              · simp [upd_apply, he] at h1; exact absurd h1 hq
            · exact absurd h1 hq
          · exact absurd h1 hq
        | ret e' r => cases r <;> simp [monStep] at h1 <;> exact absurd h1 hq
        | _ => simp [monStep] at h1 <;> exact absurd h1 hq
    · exact Or.inr ⟨ev :: l₁, c, i, l₂, rfl, hw, ho⟩

/-- what `safe` says about returned messages: the message returned to `e` (content `q`) is a
    frame that was consumed, before the return, on a connection in `e`'s hands and that carried
    the on-wire id of the query last put on that connection. -/
theorem safe_own_wire_id (h₁ h₂ : List Event) (e q : Nat) (hs : safe (h₁ ++ Event.ret e (.ok q) :: h₂) = true) :
    ∃ l₁ c i l₂, h₁ = l₁ ++ Event.rd c q i :: l₂ ∧ (mon l₁).wid c = i ∧ (mon l₁).owner c = some e := by
  have := safe_prefix (h₁ ++ [Event.ret e (.ok q)]) h₂ (by simpa using hs)
  simp [safe, monStep] at this
  rcases acc_origin h₁ Mon.init e q (by simpa [mon] using this.2) with h0 | h1
  · simp [Mon.init] at h0
  · exact h1

/-- ★ (new with 31b269e) even against a server that sends extra, duplicated or arbitrary frames:
    an exchange that returns a message returns a frame one of its workers consumed with the
    exchange's own on-wire id. -/
theorem own_wire_id (acts : List Act) (e q : Nat) (h₁ h₂ : List Event)
    (hh : (reachAdv acts).hist = h₁ ++ Event.ret e (.ok q) :: h₂) :
    ∃ l₁ c i l₂, h₁ = l₁ ++ Event.rd c q i :: l₂ ∧ (mon l₁).wid c = i ∧ (mon l₁).owner c = some e :=
  safe_own_wire_id h₁ h₂ e q (by rw [← hh]; exact adv_meets_safe acts)

/-- the monitor's "dirty" mark is never removed -/
theorem dirty_persists (l : List Event) (m : Mon) (c : Nat) (hd : m.dirty c = true) :
    (l.foldl monStep m).dirty c = true := by
  induction l generalizing m with
  | nil => exact hd
  | cons ev l ih =>
    apply ih
    cases ev with
    | rd c' q i => simp only [monStep]; (repeat' split) <;> simp [upd_apply, hd]
    | bad c' => simp [monStep, upd_apply, hd]
    | err c' => simp [monStep, upd_apply, hd]
    | ret e r => cases r <;> simp [monStep, hd]
    | _ => simp [monStep, hd]

/-- what `safe` says about frames with a foreign id: once such a frame was consumed on a
    connection, the connection is never handed to an exchange again. -/
theorem safe_foreign_never_reused (h₁ h₂ h₃ : List Event) (c q i q' : Nat) (hid : (mon h₁).wid c ≠ i) :
    safe (h₁ ++ Event.rd c q i :: (h₂ ++ Event.use c q' :: h₃)) = false := by
  apply Classical.byContradiction
  intro hne
  have hs : safe (h₁ ++ Event.rd c q i :: (h₂ ++ Event.use c q' :: h₃)) = true := by
    cases hx : safe (h₁ ++ Event.rd c q i :: (h₂ ++ Event.use c q' :: h₃)) <;> simp_all
  have hp := safe_prefix (h₁ ++ Event.rd c q i :: (h₂ ++ [Event.use c q'])) h₃ (by simpa using hs)
  have hd : (mon (h₁ ++ Event.rd c q i :: h₂)).dirty c = true := by
    rw [mon_append, List.foldl_cons]
    apply dirty_persists
    simp [monStep, Ne.symm hid]
  have : h₁ ++ Event.rd c q i :: (h₂ ++ [Event.use c q']) = (h₁ ++ Event.rd c q i :: h₂) ++ [Event.use c q'] := by
    simp
  rw [this] at hp
  have hp' : (monStep (mon (h₁ ++ Event.rd c q i :: h₂)) (Event.use c q')).ok = true := by
    simpa only [safe, mon_append1] using hp
  simp only [monStep, hd] at hp'
  simp at hp'

/-- ★ (new with 31b269e) against any server, for all histories: a connection on which a frame
    with a foreign id was consumed is never handed to an exchange again … -/
theorem foreign_id_never_reused (acts : List Act) (c q i q' : Nat) (h₁ h₂ : List Event)
    (hh : (reachAdv acts).hist = h₁ ++ Event.rd c q i :: h₂) (hid : (mon h₁).wid c ≠ i) :
    Event.use c q' ∉ h₂ := by
  intro hm
  obtain ⟨l₁, l₂, rfl⟩ := List.append_of_mem hm
  have := safe_foreign_never_reused h₁ l₁ l₂ c q i q' hid
  rw [← hh, adv_meets_safe acts] at this
  exact Bool.noConfusion this

/-- … and is never (again) in the idle set. -/
theorem foreign_id_never_idle (acts : List Act) (c q i : Nat) (h₁ h₂ : List Event)
    (hh : (reachAdv acts).hist = h₁ ++ Event.rd c q i :: h₂) (hid : (mon h₁).wid c ≠ i) :
    c ∉ (reachAdv acts).idle := by
  intro hc
  have hcl := (idle_clean_adv acts c hc).2.2.2.2.2
  rw [hh, mon_append, List.foldl_cons, dirty_persists] at hcl
  · exact Bool.noConfusion hcl
  · simp [monStep, Ne.symm hid]

theorem monStep_out_le_one (m : Mon) (ev : Event) (c : Nat) (hok : (monStep m ev).ok = true)
    (hl : (m.out c).length ≤ 1) : ((monStep m ev).out c).length ≤ 1 := by
  cases ev with
  | wr c' q i =>
    simp only [monStep] at hok ⊢
    by_cases hc : c = c'
    · subst hc; simp at hok; simp [hok.1.1.2]
    · simp [hc, hl]
  | rd c' q i =>
    simp only [monStep]
    by_cases hc : c = c'
    · subst hc; (repeat' split) <;> (simp; omega)
    · (repeat' split) <;> simp [hc, hl]
  | bad c' =>
    simp only [monStep]
    by_cases hc : c = c'
    · subst hc; simp; omega
    · simp [hc, hl]
  | ret e r => cases r <;> simpa [monStep] using hl
  | _ => simpa [monStep] using hl

theorem foldl_out_le_one (l : List Event) (m : Mon) (c : Nat) (hok : (l.foldl monStep m).ok = true)
    (hl : (m.out c).length ≤ 1) : ((l.foldl monStep m).out c).length ≤ 1 := by
  induction l generalizing m with
  | nil => exact hl
  | cons ev l ih =>
    simp only [List.foldl_cons] at hok ⊢
    exact ih _ hok (monStep_out_le_one m ev c (foldl_ok_mono l _ hok) hl)

/-- what `safe` says about outstanding queries: in every prefix of the history at most one
    query is outstanding per connection -/
theorem mon_out_le_one (h : List Event) (c : Nat) (hs : safe h = true) : ((mon h).out c).length ≤ 1 :=
  foldl_out_le_one h Mon.init c hs (by simp [Mon.init])

/-- what `safe` says about reuse: whenever a connection is handed to an exchange, nothing is
    outstanding on it, no I/O on it has failed and no frame with a foreign id was consumed on
    it, its previous user's reply has been drained, and it has not been closed by the client
    (unless the whole transport was closed). -/
theorem spec_use_clean (h₁ h₂ : List Event) (c q : Nat) (hs : safe (h₁ ++ Event.use c q :: h₂) = true) :
    (mon h₁).out c = [] ∧ (mon h₁).dirty c = false ∧ (mon h₁).ab c = false ∧
    ((mon h₁).closed c = true → (mon h₁).tclosed = true) := by
  have := safe_prefix (h₁ ++ [Event.use c q]) h₂ (by simpa using hs)
  simp [safe, monStep] at this
  refine ⟨this.1.1.1.2, this.1.1.2, this.1.2, fun hc => ?_⟩
  rcases this.2 with h | h
  · rw [hc] at h; exact Bool.noConfusion h
  · exact h

theorem spec_one_outstanding (h₁ h₂ : List Event) (c : Nat) (hs : safe (h₁ ++ h₂) = true) :
    ((mon h₁).out c).length ≤ 1 :=
  mon_out_le_one h₁ c (safe_prefix h₁ h₂ hs)

/-- the "abandoned and not drained" mark of the monitor persists until a frame is consumed -/
theorem ab_persists (l : List Event) (m : Mon) (c : Nat) (hab : m.ab c = true)
    (hno : ∀ q i, Event.rd c q i ∉ l) : (l.foldl monStep m).ab c = true := by
  induction l generalizing m with
  | nil => exact hab
  | cons ev l ih =>
    apply ih
    · cases ev with
      | rd c' q i =>
        have : c ≠ c' := fun hc => hno q i (by simp [hc])
        simp only [monStep]; (repeat' split) <;> simp [this, hab]
      | ret e r => cases r <;> simp [monStep, hab]
      | _ => simp [monStep, hab]
    · intro q i hq; exact hno q i (List.mem_cons_of_mem _ hq)

theorem idle_not_abandoned_of_inv {s : State} (hi : Inv s) (c : Nat) (hc : c ∈ s.idle) :
    (mon s.hist).ab c = false := by
  have h := hi.conn c
  simp only [ConnOK, COK] at h
  exact (h.2.2.2.2.1 hc).2.2.2.2.2.2

/-- a connection in the idle set never carries the mark "its user gave up and the reply was
    not drained" -/
theorem idle_not_abandoned (acts : List Act) (c : Nat) (hc : c ∈ (reach acts).idle) :
    (mon (reach acts).hist).ab c = false :=
  idle_not_abandoned_of_inv (reach_inv acts) c hc

/-- `abandoned_drained_or_closed`: if the caller of exchange `e` gives up (`ret e ctx`) while
    connection `c` is in `e`'s hands, and `c` is later found in the idle set, then in between
    a complete frame was drained from `c` (an `rd c _ _` event, which only `workerReadOk`
    emits; by `idle_clean` it carried the id of the outstanding query). Holds against any server. -/
theorem abandoned_drained_or_closed (acts : List Act) (c e : Nat) (h₁ h₂ : List Event)
    (hh : (reachAdv acts).hist = h₁ ++ Event.ret e .ctx :: h₂)
    (hown : (mon h₁).owner c = some e) (hc : c ∈ (reachAdv acts).idle) :
    ∃ q i, Event.rd c q i ∈ h₂ := by
  apply Classical.byContradiction
  intro hno
  have hno : ∀ q i, Event.rd c q i ∉ h₂ := fun q i hq => hno ⟨q, i, hq⟩
  have hab := idle_not_abandoned_of_inv (reachAdv_inv acts) c hc
  rw [hh, mon_append, List.foldl_cons] at hab
  have := ab_persists h₂ (monStep (mon h₁) (.ret e .ctx)) c (by simp [monStep, hown]) hno
  rw [this] at hab
  exact Bool.noConfusion hab

/-- `rd` events are emitted by `workerReadOk` only, i.e. by the worker goroutine that owns the
    connection, after it consumed a complete frame. -/
theorem rd_only_by_workerReadOk (s : State) (a : Act) (c q i : Nat)
    (hnew : Event.rd c q i ∈ (stepAdv s a).hist) (hold : Event.rd c q i ∉ s.hist) :
    a = .workerReadOk c := by
  unfold stepAdv at hnew
  split at hnew
  · exact absurd hnew hold
  · cases a <;> simp only [stepCoreG] at hnew
    case workerReadOk c' =>
      repeat' split at hnew
      all_goals simp [State.emit, State.setConn, hold] at hnew
      all_goals rw [hnew.1]
    all_goals
      exfalso
      repeat' split at hnew
      all_goals
        simp [State.emit, State.setConn, State.setCaller, State.finish, State.spawn, State.rcClose,
          State.netClose, hold] at hnew
      all_goals
        repeat' split at hnew
      all_goals
        simp [State.emit, State.setConn, hold] at hnew

/-- `no_double_use`: neither `panic("call exitIdle on a busy connection")` nor
    `panic("call enterIdle on a idle connection")` is reachable, and a connection is never
    handed to an exchange while another goroutine still owns it. -/
theorem no_double_use (acts : List Act) : (reach acts).fault = none :=
  (reach_inv acts).fault

theorem no_double_use_adv (acts : List Act) : (reachAdv acts).fault = none :=
  (reachAdv_inv acts).fault

/-- the last attempt (`retry > 5`) does not consult the pool — nor `t.closed` — and dials: the
    idle set, every connection and the history are untouched. -/
theorem last_attempt_dials (s : State) (e : Nat) (pick : Option Nat) (hf : s.fault = none)
    (hp : (s.caller e).phase = .get) (hr : (s.caller e).retry > 5) :
    let s' := step s (.getIdle e pick)
    (s'.caller e).phase = .dialing ∧ (s'.caller e).dial = .dialing ∧ s'.idle = s.idle ∧ s'.all = s.all ∧
    s'.conn = s.conn ∧ s'.hist = s.hist := by
  simp [step, stepCore, stepCoreG, hf, hp, hr, State.setCaller]

/-- Assumption A1 is needed: if the idle timer of a freshly dialled connection fires before the
    dial goroutine's `rc.exitIdle()` (possible only when `IdleTimeout` is shorter than the few
    instructions between the two calls) and the caller has given up meanwhile, the dial
    goroutine's `releaseConn(rc, nil)` reaches `panic("call enterIdle on a idle connection")`.
    (Replayed on the real code with `IdleTimeout: time.Nanosecond`.) -/
theorem early_timer_panics :
    (execRacy State.init [.start 1, .cancel 1, .getIdle 1 none, .giveUp 1, .dialDone 1 true, .idleTimer 0,
      .dialExit 0, .dialDeliver 0 false, .workerRelA 0]).fault = some .enterIdleIdle := by decide

/-- … while under A1 the same schedule is harmless. -/
example : (reach [.start 1, .cancel 1, .getIdle 1 none, .giveUp 1, .dialDone 1 true, .idleTimer 0,
      .dialExit 0, .dialDeliver 0 false, .workerRelA 0, .workerRelB 0]).idle = [0] := by decide

/-! ### non-vacuity -/

/-- a schedule that puts a connection into the idle set (so `idle_clean` is not vacuous) … -/
def demoActs : List Act :=
  [.start 1, .getIdle 1 none, .dialDone 1 true, .dialExit 0, .dialDeliver 0 true, .workerWrite 0 false,
   .workerReadPart 0, .srvReply 0 true, .workerReadOk 0, .workerPost 0, .recvRes 1, .workerRelA 0, .workerRelB 0]

example : (reach demoActs).idle = [0] := by decide
example : (reach demoActs).hist = [.dial 0, .use 0 1, .wr 0 1 0, .rd 0 1 0, .ret 1 (.ok 1)] := by decide
/-- … and reuses it -/
example : (reach (demoActs ++ [.start 2, .getIdle 2 (some 0), .workerWrite 0 false])).hist =
    [.dial 0, .use 0 1, .wr 0 1 0, .rd 0 1 0, .ret 1 (.ok 1), .use 0 2, .wr 0 2 1] := by decide
/-- a caller that gives up while its query is outstanding: the connection stays with the
    worker, and comes back only after the reply was drained -/
example : (reach [.start 1, .getIdle 1 none, .dialDone 1 true, .dialExit 0, .dialDeliver 0 true,
    .workerWrite 0 false, .cancel 1, .giveUp 1]).idle = [] := by decide
example : (reach [.start 1, .getIdle 1 none, .dialDone 1 true, .dialExit 0, .dialDeliver 0 true,
    .workerWrite 0 false, .cancel 1, .giveUp 1, .srvReply 0 true, .workerReadOk 0, .workerPost 0, .workerRelA 0, .workerRelB 0]).idle
    = [0] := by decide

/-- a duplicated reply (the scenario of 31b269e): exchange 1 gets its reply, the copy stays in the
    stream; exchange 2 reuses the connection, reads the copy, rejects it because of its id, the
    connection is closed and forgotten, exchange 2 retries on a new connection and gets its own reply -/
def dupActs : List Act :=
  [.start 1, .getIdle 1 none, .dialDone 1 true, .dialExit 0, .dialDeliver 0 true, .workerWrite 0 false,
   .srvReply 0 true, .srvDup 0 0, .workerReadOk 0, .workerPost 0, .recvRes 1, .workerRelA 0, .workerRelB 0,
   .start 2, .getIdle 2 (some 0), .workerWrite 0 false, .workerReadOk 0, .workerPost 0, .recvRes 2,
   .workerRelA 0, .workerRelB 0, .getIdle 2 none, .dialDone 2 true, .dialExit 1, .dialDeliver 1 true,
   .workerWrite 1 false, .srvReply 1 true, .workerReadOk 1, .workerPost 1, .recvRes 2]

example : (reach dupActs).hist =
    [.dial 0, .use 0 1, .wr 0 1 0, .rd 0 1 0, .ret 1 (.ok 1), .use 0 2, .wr 0 2 1, .rd 0 1 0, .cl 0,
     .dial 1, .use 1 2, .wr 1 2 0, .rd 1 2 0, .ret 2 (.ok 2)] := by decide
example : (reach dupActs).idle = [] ∧ (reach dupActs).all = [1] := by decide

/-- a lying server (arbitrary frame with the right id) can of course make an exchange return a
    foreign answer — `own_reply` needs `reach`, `own_wire_id` does not -/
example : (reachAdv [.start 1, .getIdle 1 none, .dialDone 1 true, .dialExit 0, .dialDeliver 0 true,
    .workerWrite 0 false, .srvStray 0 ⟨0, 7, true⟩, .workerReadOk 0, .workerPost 0, .recvRes 1]).hist =
    [.dial 0, .use 0 1, .wr 0 1 0, .rd 0 7 0, .ret 1 (.ok 7)] := by decide

/-- the specification is not vacuous: it rejects … a second query on a connection that still owes a reply, -/
example : spec [.dial 0, .use 0 1, .wr 0 1 0, .ret 1 .ctx, .use 0 2] = false := by decide
example : spec [.dial 0, .use 0 1, .wr 0 1 0, .use 0 2, .wr 0 2 1] = false := by decide
/-- … a foreign reply, -/
example : spec [.dial 0, .use 0 1, .wr 0 1 0, .rd 0 1 0, .ret 2 (.ok 1)] = false := by decide
/-- … the behaviour before 31b269e: a frame with a foreign id is returned to the caller, -/
example : safe [.dial 0, .use 0 1, .wr 0 1 0, .rd 0 1 0, .ret 1 (.ok 1), .use 0 2, .wr 0 2 1, .rd 0 1 0,
    .ret 2 (.ok 1)] = false := by decide
/-- … or the connection is used again after such a frame, -/
example : safe [.dial 0, .use 0 1, .wr 0 1 0, .rd 0 1 0, .ret 1 (.ok 1), .use 0 2, .wr 0 2 1, .rd 0 1 0,
    .ret 2 .err, .use 0 3] = false := by decide
/-- … reuse after an error or an undecodable reply, -/
example : spec [.dial 0, .use 0 1, .wr 0 1 0, .err 0, .ret 1 .err, .use 0 2] = false := by decide
example : spec [.dial 0, .use 0 1, .wr 0 1 0, .bad 0, .ret 1 .err, .use 0 2] = false := by decide
/-- … reuse of a connection the client closed, -/
example : spec [.dial 0, .use 0 1, .wr 0 1 0, .rd 0 1 0, .ret 1 (.ok 1), .cl 0, .use 0 2] = false := by decide
/-- … a worker that puts another exchange's bytes on the connection; -/
example : spec [.dial 0, .use 0 1, .wr 0 9999 0] = false := by decide
/-- and it accepts the drained hand-over. -/
example : spec [.dial 0, .use 0 1, .wr 0 1 0, .ret 1 .ctx, .rd 0 1 0, .use 0 2, .wr 0 2 1, .rd 0 2 1,
    .ret 2 (.ok 2)] = true := by
  decide

/-- tie (pinned source facts): who calls `releaseConn` (the worker goroutine of
    `exchangeConnCtx` and the dial goroutine, nobody else), nobody else inserts into
    `idleConns`, `enterIdle` precedes the insertion, the call of `getIdleConn`, the closed check in
    `exitIdle`, the worker's private copy of the payload, the idle timer's test, both reads of
    `ReadMsgFromTCP` are `io.ReadFull`; the per-connection wire id is written into the payload, a reply with
    another id is an error, the caller's id is restored.
    The integer / boolean logic is tied by translation instead (Lemmas/TranslatedC06.lean: `getIdle_translated` —
    the `retry <= 5` guard in front of `getIdleConn`, `recvRes_translated` — the retry condition,
    `workerWrite_translated` — `qid := c.nextQid; c.nextQid++`, `workerReadOk_translated` — `r.Header.ID != qid`). -/
theorem pins :
    Facts.reuse_getIdleCalls = 1 ∧
    Facts.reuse_poolGuardStmt = "c, err = t.getIdleConn()" ∧
    Facts.reuse_dialWhenNil = "c == nil" ∧
    Facts.reuse_relCallsWorker = 1 ∧ Facts.reuse_relCallsDial = 1 ∧ Facts.reuse_relCallsExchange = 0 ∧
    Facts.reuse_relCallsExchangeConn = 0 ∧ Facts.reuse_relCallsGetIdle = 0 ∧ Facts.reuse_relCallsClose = 0 ∧
    Facts.reuse_idleInsertsExchange = 0 ∧ Facts.reuse_idleInsertsWorker = 0 ∧ Facts.reuse_idleInsertsDial = 0 ∧
    Facts.reuse_workerGo = "go func() { resp, err := t.exchangeConn(payloadCopy, c) pool.ReleaseBuf(payloadCopy) resChan <- res{m: resp, err: err} t.releaseConn(c, err) }()" ∧
    Facts.reuse_payloadCopy = "payloadCopy := copyMsg(payload)" ∧
    Facts.reuse_workerSelect = "case <-ctx.Done(): return nil, context.Cause(ctx)" ∧
    Facts.reuse_releaseBody = "{ if err != nil { debugLogTransportConnClosed(rc.c, t.logger, err) rc.close() } else { rc.enterIdle() } t.m.Lock() if t.closed { t.m.Unlock() if err == nil { rc.close() } return } if err != nil { delete(t.conns, rc) } else { t.idleConns[rc] = struct{}{} } t.m.Unlock() }" ∧
    Facts.reuse_dialAbandon = "case <-callCtx.Done(): if rc != nil { t.releaseConn(rc, nil) }" ∧
    Facts.reuse_dialExitIdle = "rc.exitIdle()" ∧
    Facts.reuse_getIdleLoop = "for c := range t.idleConns { delete(t.idleConns, c) if closed := c.exitIdle(); closed { delete(t.conns, c) continue } return c, nil }" ∧
    Facts.reuse_exitIdleBody = "{ c.m.Lock() defer c.m.Unlock() if c.closed { return true } if c.serving { panic(\"call exitIdle on a busy connection\") } c.serving = true c.idleTimer.Stop() err := c.c.SetReadDeadline(time.Time{}) return err != nil }" ∧
    Facts.reuse_enterIdleBody = "{ c.m.Lock() defer c.m.Unlock() if !c.serving { panic(\"call enterIdle on a idle connection\") } c.serving = false c.idleTimer.Reset(c.idleTimeout) }" ∧
    Facts.reuse_closeIfIdleBody = "{ c.m.Lock() serving := c.serving if !serving { c.closed = true defer c.c.Close() } c.m.Unlock() }" ∧
    Facts.reuse_exchangeConnWrite = "_, err := c.c.Write(payload)" ∧
    Facts.reuse_exchangeConnRead = "r, _, err := dnsutils.ReadMsgFromTCP(c.c)" ∧
    Facts.reuse_readFullCalls = 2 ∧
    Facts.reuse_idSave = "origID := binary.BigEndian.Uint16(payload[2:])" ∧
    Facts.reuse_nextQidUses = 2 ∧
    Facts.reuse_idPut = "binary.BigEndian.PutUint16(payload[2:], qid)" ∧
    Facts.reuse_idCheckStmt = "return nil, errUnexpectedRespID" ∧
    Facts.reuse_idRestore = "r.Header.ID = origID" ∧
    Facts.reuse_queryTimeout = 6000000000 := by
  (repeat' apply And.intro) <;> rfl

end MosVerif.C06
