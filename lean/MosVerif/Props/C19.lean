/-
  C19 — Prefetch is single-flight and never delays a cache hit.
  Model: MosVerif/Model/Prefetch.lean (on top of C08's cache model), lemmas: MosVerif/Lemmas/Prefetch.lean.
-/
import MosVerif.Lemmas.TranslatedC19
import MosVerif.Lemmas.Prefetch
import MosVerif.Lemmas.PrefetchE2E
import MosVerif.Generated.Facts
namespace MosVerif.C19
open MosVerif.Ttl MosVerif.Prefetch

/-! ### the refresh window -/

/-- ★ `needPrefetch` says yes exactly when the remaining lifetime is below ⌊lifespan / 4⌋ (Go's arithmetic
    shift is the floor division, also for negative spans), i.e. exactly when 4·remain + 4 ≤ lifespan, on int64
    nanoseconds. -/
theorem window_exact (stored expire now : Int) :
    (needPrefetch stored expire now = true ↔ expire - now < (expire - stored) / 4) ∧
    (needPrefetch stored expire now = true ↔ 4 * (expire - now) + 4 ≤ expire - stored) := by
  have hs : (expire - stored) >>> 2 = (expire - stored) / 4 := by
    rw [Int.shiftRight_eq_div_pow]; rfl
  unfold needPrefetch
  simp only [hs, decide_eq_true_eq]
  constructor
  · trivial
  · omega

example : needPrefetch 0 4000 2999 = false ∧ needPrefetch 0 4000 3000 = false ∧ needPrefetch 0 4000 3001 = true := by decide
example : needPrefetch 0 4003 3003 = false ∧ needPrefetch 0 4003 3004 = true := by decide

/-! ### single flight -/

/-- ★ For every number of client threads, every assignment of questions to them, every initial cache content and
    EVERY interleaving of their steps with the steps of the refresh goroutines (any upstream outcomes and
    latencies): at any time at most one refresh per prefetch key is in flight — counting a goroutine from the
    moment `reserve` succeeded until it has executed `done`. -/
theorem single_flight (P : Params) (mem : Mem) (keys : List Nat) (n : Nat) (labels : List Label) (pk : Nat) :
    let s := Prefetch.run P (init mem keys n) labels
    s.clients.countP (Client.spawningOn P pk) + inflight s pk ≤ 1 := by
  have h := sf_run P labels _ (sf_init P mem keys n) pk
  simp only [inflight]
  split at h <;> omega

/-- in particular at most one goroutine per question (keyForPrefetch is a function of the question and the
    client group, so equal questions share the key; a hash collision can only suppress a refresh) -/
theorem single_flight_per_question (P : Params) (mem : Mem) (keys : List Nat) (n : Nat) (labels : List Label)
    (key : Nat) :
    ((Prefetch.run P (init mem keys n) labels).refreshers.countP
      (fun r => r.key == key && r.pk == P.pkey key && (match r.pc with | .finished => false | _ => true))) ≤ 1 := by
  have h := single_flight P mem keys n labels (P.pkey key)
  simp only [inflight] at h
  refine Nat.le_trans (List.countP_mono_left ?_) (Nat.le_trans (Nat.le_add_left _ _) h)
  intro r _ hr
  simp only [Bool.and_eq_true, beq_iff_eq] at hr
  simp only [Refresher.inflightOn, Bool.and_eq_true, beq_iff_eq]
  exact ⟨hr.1.2, hr.2⟩

/-- the queue and the in-flight count agree: a key is reserved iff exactly one holder exists -/
theorem queue_exact (P : Params) (mem : Mem) (keys : List Nat) (n : Nat) (labels : List Label) (pk : Nat) :
    let s := Prefetch.run P (init mem keys n) labels
    s.clients.countP (Client.spawningOn P pk) + inflight s pk = if s.queue pk then 1 else 0 :=
  sf_run P labels _ (sf_init P mem keys n) pk

/-- non-vacuity: three clients hit the same entry in its last quarter; one refresh is spawned, all three respond -/
example :
    let P := e2eParams
    let mem0 := cacheStore P.clock P.cfg Mem.empty 0 (some (aRecord 4)) 0 0 1
    let s := Prefetch.run P (init mem0 [0, 0, 0] 2) (waveLabels 0 3 (3300 * msNs))
    (s.refreshers.length, inflight s 0, (waveResult s 0 3)) = (1, 1, (3, 1)) := by decide

/-! ### a hit is never blocked -/

/-- ★ From ANY state (whatever the refresh goroutines are doing — e.g. stuck in a slow upstream exchange forever)
    a client thread that has reached the cache lookup finishes with at most four steps of its own; no step of
    any refresh goroutine or of another client is needed in between. -/
theorem hit_not_blocked (P : Params) (s : State) (i : Nat) (hi : i < s.clients.length) (t1 t2 t3 t4 : Nat) :
    ∃ pc, clientPc (Prefetch.run P s [.client i t1, .client i t2, .client i t3, .client i t4]) i = some pc ∧
      pc.rank = 0 := by
  have h0 : ∃ pc, clientPc s i = some pc := by
    simp [clientPc, List.getElem?_eq_getElem hi]
  obtain ⟨pc0, h0⟩ := h0
  obtain ⟨pc1, h1, r1, -⟩ := clientStep_self P s i t1 pc0 h0
  obtain ⟨pc2, h2, r2, -⟩ := clientStep_self P _ i t2 pc1 h1
  obtain ⟨pc3, h3, r3, -⟩ := clientStep_self P _ i t3 pc2 h2
  obtain ⟨pc4, h4, r4, -⟩ := clientStep_self P _ i t4 pc3 h3
  refine ⟨pc4, h4, ?_⟩
  have : pc0.rank ≤ 4 := by cases pc0 <;> simp [CPc.rank]
  omega

/-- rank 0 means: the response is out (or the lookup missed and the miss path — not this property's subject —
    takes over) -/
theorem rank_zero (pc : CPc) (h : pc.rank = 0) : (∃ hit, pc = .responded hit) ∨ pc = .missed := by
  cases pc <;> simp [CPc.rank] at h ⊢

/-- ★ …and what it responds is what its own lookup found: no step of anybody else (refresh goroutines, other
    clients) changes a client thread's state, and its own steps keep the hit it holds. Hence for every
    interleaving the response to a hit is the cache content at the time of the lookup, whatever the refresh does. -/
theorem response_fixed_at_lookup (P : Params) (s : State) (i : Nat) (pc : CPc) (hit : Hit)
    (h : clientPc s i = some pc) (hh : pc.hit = some hit) (labels : List Label) :
    ∃ pc', clientPc (Prefetch.run P s labels) i = some pc' ∧ pc'.hit = some hit := by
  induction labels generalizing s pc with
  | nil => exact ⟨pc, h, hh⟩
  | cons l ls ih =>
    simp only [Prefetch.run]
    by_cases hl : ∃ now, l = .client i now
    · obtain ⟨now, rfl⟩ := hl
      obtain ⟨pc1, h1, -, k1⟩ := clientStep_self P s i now pc h
      exact ih (step P s (.client i now)) pc1 h1 (k1 hit hh)
    · have hsame : clientPc (step P s l) i = clientPc s i := by
        cases l with
        | client i' now =>
          have : i' ≠ i := fun e => hl ⟨now, by rw [e]⟩
          exact clientStep_other P s i i' now this
        | forward j out => simp [clientPc, step_refresher_clients P s (.forward j out) (by intro _ _ h; cases h)]
        | store j now d => simp [clientPc, step_refresher_clients P s (.store j now d) (by intro _ _ h; cases h)]
        | done j => simp [clientPc, step_refresher_clients P s (.done j) (by intro _ _ h; cases h)]
      exact ih (step P s l) pc (by rw [hsame]; exact h) hh

/-! ### what a refresh does to the cache -/

/-- ★ A successful refresh of a positive answer (rcode 0, not truncated) is stored with Set: whatever the key
    held is replaced by a node with the new message, stored "now" — so later hits carry renewed TTLs: the new
    TTLs aged by the time since the refresh, not since the original fetch. -/
theorem refresh_replaces_positive (P : Params) (s : State) (j : Nat) (r : Refresher) (m : Msg) (now delay : Nat)
    (hr : s.refreshers[j]? = some r) (hpc : r.pc = .fetched m) (hb : P.cfg.hasBackend = true)
    (htc : m.tc = false) (hpos : m.rcode = 0) :
    ∃ e, (step P s (.store j now delay)).mem r.key = some e ∧ e.msg = m ∧ e.stored = now ∧ e.id = s.nextId ∧
      ∀ t, cacheGet P.clock (step P s (.store j now delay)).mem r.key t = none ∨
           cacheGet P.clock (step P s (.store j now delay)).mem r.key t
             = some (subtractTTL m (elapsedDelta (t - now)), e) := by
  obtain ⟨e, he, hm, hid, hst⟩ := cacheStore_pos P.clock P.cfg s.mem r.key m now delay s.nextId hb htc hpos
  have hmem : (step P s (.store j now delay)).mem = cacheStore P.clock P.cfg s.mem r.key (some m) now delay s.nextId := by
    show (storeStep P s j now delay).mem = _
    simp [storeStep, hr, hpc]
  refine ⟨e, by rw [hmem]; exact he, hm, hst, hid, ?_⟩
  intro t
  rw [hmem]
  unfold cacheGet otterGet
  rw [he]
  by_cases hx : e.expTick ≤ P.clock t
  · left; simp [hx]
  · right; simp [hx, hm, hst]

/-- ★ A failed refresh (the upstream exchange returns an error) never reaches `Store`: the goroutine goes from
    `spawned` straight to `done`; the cache is exactly what it was — the old entry is served until it expires —
    and the reservation is released, so a later hit may try again. -/
theorem failed_refresh_keeps_entry (P : Params) (s : State) (j : Nat) (r : Refresher) (t d : Nat)
    (hr : s.refreshers[j]? = some r) (hpc : r.pc = .spawned) :
    let s' := Prefetch.run P s [.forward j .err, .store j t d, .done j]
    s'.mem = s.mem ∧ s'.queue r.pk = false ∧ (∀ k now, cacheGet P.clock s'.mem k now = cacheGet P.clock s.mem k now) ∧
    (∃ r', s'.refreshers[j]? = some r' ∧ r'.pc = .finished) := by
  obtain ⟨hj, he⟩ := getElem?_some _ _ _ hr
  have h1 : step P s (.forward j .err) = { s with refreshers := s.refreshers.set j { r with pc := .finishing } } := by
    show forwardStep s j .err = _
    simp [forwardStep, hr, hpc]
  have hget : ({ s with refreshers := s.refreshers.set j { r with pc := .finishing } } : State).refreshers[j]?
      = some { r with pc := .finishing } := by simp [List.getElem?_set, hj]
  simp only [Prefetch.run, h1]
  have h2 : step P { s with refreshers := s.refreshers.set j { r with pc := .finishing } } (.store j t d)
      = { s with refreshers := s.refreshers.set j { r with pc := .finishing } } := by
    show storeStep P _ j t d = _
    simp [storeStep, hget]
  rw [h2]
  have h3 : step P { s with refreshers := s.refreshers.set j { r with pc := .finishing } } (.done j)
      = { s with queue := done s.queue r.pk,
                 refreshers := (s.refreshers.set j { r with pc := .finishing }).set j { r with pc := .finished } } := by
    show doneStep _ j = _
    simp [doneStep, hget]
  rw [h3]
  refine ⟨rfl, by simp [done], fun _ _ => rfl, ⟨{ r with pc := .finished }, by simp [List.getElem?_set, hj], rfl⟩⟩

/-- a refresh that brings an error *response* (e.g. NXDOMAIN, SERVFAIL) is stored set-if-absent (C08): it does
    not displace the entry as long as that entry is alive on the cache clock -/
theorem negative_refresh_keeps_entry (P : Params) (s : State) (j : Nat) (r : Refresher) (m : Msg) (now delay : Nat)
    (e : Entry) (hr : s.refreshers[j]? = some r) (hpc : r.pc = .fetched m) (hneg : m.rcode ≠ 0)
    (hpres : s.mem r.key = some e) (hlive : P.clock (now + delay) < e.expTick) :
    (step P s (.store j now delay)).mem = s.mem := by
  show (storeStep P s j now delay).mem = _
  simp only [storeStep, hr, hpc]
  exact cacheStore_neg_present P.clock P.cfg s.mem r.key m now delay s.nextId e hneg hpres hlive

/-! ### the executable specifications accept the models -/

/-- ★ (needprefetch) -/
theorem need_model_meets_spec (stored expire now slack : Int) (hs : 1 ≤ slack) :
    specNeed stored expire now slack (needPrefetch stored expire now) = true := by
  have hw := (window_exact stored expire now).2
  unfold specNeed
  simp only [Bool.and_eq_true]
  constructor
  · split
    · exact hw.2 (by omega)
    · rfl
  · split
    · cases hn : needPrefetch stored expire now with
      | false => rfl
      | true => have := hw.1 hn; omega
    · rfl

example : specNeed 0 4000 2000 5 true = false ∧ specNeed 0 4000 3500 5 false = false := by decide

theorem specCtl_model (ops : List CtlOp) : ∀ (q : Queue) (held : List Nat), (∀ k, held.contains k = q k) →
    specCtl held ops (modelCtl q ops) = true := by
  induction ops with
  | nil => intro q held _; rfl
  | cons op rest ih =>
    intro q held hq
    have hres : ∀ k, specCtl held (.reserve k :: rest) ((if (reserve q k).2 then 1 else 0) :: modelCtl (reserve q k).1 rest) = true := by
      intro k
      by_cases hk : q k = true
      · have hc : held.contains k = true := by rw [hq]; exact hk
        rw [reserve_held _ _ hk]
        simp only [specCtl, hc, if_true, Bool.false_eq_true, if_false, Bool.and_eq_true]
        exact ⟨by decide, by simpa using ih q held hq⟩
      · have hkf : q k = false := by simpa using hk
        have hc : held.contains k = false := by rw [hq]; exact hkf
        rw [reserve_free _ _ hkf]
        simp only [specCtl, hc, if_true, Bool.false_eq_true, if_false, Bool.and_eq_true]
        refine ⟨by decide, ?_⟩
        have : ((1 : Nat) == 1) = true := rfl
        simp only [this, if_true]
        apply ih
        intro k'
        by_cases hkk : k' = k
        · subst hkk; simp
        · simp only [hkk, if_false]
          rw [← hq k']
          simp [List.contains_cons, hkk]
    cases op with
    | reserve k => simpa [modelCtl] using hres k
    | done k =>
      simp only [modelCtl, specCtl]
      apply ih
      intro k'
      simp only [done]
      by_cases hkk : k' = k
      · subst hkk; simp [List.contains_eq_any_beq]
      · simp only [hkk, if_false]
        rw [← hq k']
        simp only [List.contains_eq_any_beq, List.any_filter]
        congr 1
        funext x
        by_cases hx : x = k
        · subst hx; simp [hkk]
        · simp [hx]
    | par k n =>
      simp only [modelCtl]
      by_cases hn : n = 0
      · subst hn
        simp only [if_true, specCtl]
        have : ((0 : Nat) == 1) = false := rfl
        simp only [this, Bool.false_eq_true, if_false, Bool.and_eq_true]
        refine ⟨?_, ih q held hq⟩
        split <;> decide
      · simp only [hn, if_false]
        have := hres k
        simpa [specCtl] using this

/-- ★ (prefetchctl) the reserve/done model never grants a key that is still held -/
theorem ctl_model_meets_spec (ops : List CtlOp) : specCtl [] ops (modelCtl Queue.empty ops) = true :=
  specCtl_model ops Queue.empty [] (by intro k; rfl)

example : specCtl [] [.reserve 1, .reserve 1] [1, 1] = false := by decide
example : specCtl [] [.reserve 1, .done 1, .reserve 1] [1, 1] = true := by decide
example : specCtl [] [.par 1 64] [2] = false := by decide

/-- ★ (prefetch_e2e) the scenario model satisfies the specification in every mode and for EVERY number `n ≥ 1`
    of concurrent hits per wave (upstream delays as the harness uses them: 500 ms in mode 0, 300 ms otherwise):
    all hits answered from cache, one refresh in flight, renewed TTL after a successful refresh, the old entry
    still served after a failed one. (Proved through `wave_run`: n client threads on one question, any n.) -/
theorem e2e_model_meets_spec (mode n : Nat) (hm : mode ≤ 2) (hn : 0 < n) :
    specE2E mode n (modelE2E mode n (if mode = 0 then 500 else 300)) = true :=
  specE2E_model mode n hm hn

example : specE2E 0 3 ⟨3, 1, 3, 1, true, 3, 2, some (true, 4), none⟩ = false := by decide
example : specE2E 0 3 ⟨3, 1, 3, 1, true, 2, 1, some (true, 1), none⟩ = false := by decide
example : specE2E 1 3 ⟨3, 1, 0, 0, true, 4, 1, some (false, 0), some (false, 0)⟩ = false := by decide
example : specE2E 0 3 ⟨3, 1, 3, 1, false, 2, 1, some (true, 4), none⟩ = false := by decide
/-- a failed refresh that wiped the answer (cached, but nothing in it) is rejected -/
example : specE2E 1 3 ⟨3, 1, 0, 0, true, 4, 1, some (true, 0), some (false, 0)⟩ = false := by decide

/-! ### tie: pinned source facts -/

/-- (`needPrefetch`'s three statements are tied by translation: `Prefetch.c19_needPrefetch_translated`) -/
theorem pins :
    Facts.pf_reserveBody = "{ c.m.Lock() defer c.m.Unlock() _, dup := c.queue[key] if dup { return false } c.queue[key] = struct{}{} return true }" ∧
    Facts.pf_doneBody = "{ c.m.Lock() defer c.m.Unlock() delete(c.queue, key) }" ∧
    Facts.pf_asyncBody = "{ key := r.cache.keyForPrefetch(q, remoteAddr) if ok := r.prefetch.reserve(key); !ok { return } qCopy := q.Copy() go func() { r.doPrefetch(qCopy, remoteAddr, u) dnsmsg.ReleaseQuestion(qCopy) r.prefetch.done(key) }() }" ∧
    Facts.pf_goStmt = "go func() { r.doPrefetch(qCopy, remoteAddr, u) dnsmsg.ReleaseQuestion(qCopy) r.prefetch.done(key) }()" ∧
    Facts.pf_goCount = 1 := by
  refine ⟨?_, ?_, ?_, ?_, ?_⟩ <;> rfl

/-- (continued) the hit path calls the prefetch before answering and never waits for it; doPrefetch stores only
    after a successful forward -/
theorem pins_2 :
    Facts.pf_hitCond = "resp != nil" ∧
    Facts.pf_hitBranch = "if needPrefetch(storedTime, expireTime) { r.asyncSingleFlightPrefetch(q, rc.RemoteAddr.Addr(), upstream) }" ∧
    Facts.pf_hitRespond = "rc.Response.Msg = resp" ∧
    Facts.pf_doForward = "resp, err := r.forward(ctx, u, q, remoteAddr)" ∧
    Facts.pf_doErrCond = "err != nil" ∧
    Facts.pf_doStore = "r.cache.Store(q, remoteAddr, resp)" ∧
    Facts.pf_doStoreCount = 1 ∧
    Facts.pf_doReturnCount = 1 := by
  refine ⟨?_, ?_, ?_, ?_, ?_, ?_, ?_, ?_⟩ <;> rfl

end MosVerif.C19
