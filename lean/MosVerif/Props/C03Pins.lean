/-
  C03 — source facts of the listener layer (regenerated on every run) that the listener components rely on:
  the UDP listener reads whole datagrams and never packs more than a datagram can carry; a stream connection with
  queries in flight is not idle.
-/
import MosVerif.Generated.Facts
namespace MosVerif.C03

theorem pins_listeners :
    Facts.udp_maxPayload = 65507 ∧ Facts.udp_readBuf = 65535 ∧
    Facts.tcp_idleBusy = "n == 0 && concurrent.Load() > 0 && errors.Is(err, os.ErrDeadlineExceeded)" ∧
    Facts.quic_idleBusy = "idleTimeout && busy && c.Context().Err() == nil" := by decide

end MosVerif.C03
