/-
  C13 — Stream listeners frame correctly under any segmentation and pipelining.

  Models: Model/Gnet (the event-driven listener's reassembly machine over gnet's `Next`),
  Model/Framing (the goroutine listener's blocking reader, `packRespTCP`).
  Helper lemmas: Lemmas/Gnet*.lean, Lemmas/Framing.lean.

  Scope: frames of length 0 are not queries — they fail to decode and the connection is
  closed (C01's business); every theorem about delivered queries is stated for streams whose
  frames have length ≥ 1, and `OnTraffic` is assumed to fire only when octets arrived
  (segments are non-empty).
-/
import MosVerif.Lemmas.GnetResp
import MosVerif.Lemmas.Framing
import MosVerif.Lemmas.GnetMulti
import MosVerif.Lemmas.TranslatedC13
import MosVerif.Generated.Facts
namespace MosVerif.C13
open MosVerif.Gnet

/-! ## the event-driven listener (gnet) -/

/-- ★ Refinement, segments only. For every decode predicate, every limit, and EVERY list of
    non-empty segments whose concatenation contains no zero-length frame: the mode machine decodes
    exactly the frames the reference stream parser finds in the concatenation, in order, up to the
    first one that does not decode; it closes the connection iff there is such a frame; it never
    panics or spins; and otherwise it rests in the canonical state for the parser's leftover
    (nothing lost, nothing duplicated, nothing kept in `cc.buffer`). -/
theorem gnet_refines_parse (dec : Bytes → Bool) (max : Nat) (segs : List Bytes)
    (hseg : ∀ s ∈ segs, s ≠ [])
    (hne : ∀ f ∈ (parse segs.flatten).1, f ≠ []) :
    let c := runOps dec max (segs.map Op.seg) {}
    c.bad = false ∧
    c.log = (admission max 0 ((parse segs.flatten).1.takeWhile dec)).1 ∧
    c.log.map Event.body = (parse segs.flatten).1.takeWhile dec ∧
    c.closed = !(parse segs.flatten).1.all dec ∧
    ((parse segs.flatten).1.all dec = true → Rest c.cc c.inb (parse segs.flatten).2) := by
  intro c
  have hrun := noEmpty_segs dec max segs {} hseg (Or.inr (by simpa using hne))
  have hsim := run_refines dec max (segs.map Op.seg) {} {} sim_init hrun
  have hclosed := ref_segs dec max segs {} rfl (Or.inl (by simp))
  have hlog : c.log = (admission max 0 ((parse segs.flatten).1.takeWhile dec)).1 := by
    have := hclosed.log; simp only [List.nil_append] at this; rw [← this]; exact hsim.log
  have hcl : c.closed = !(parse segs.flatten).1.all dec := by
    have := hclosed.closed; simp only [List.nil_append] at this; rw [← this]; exact hsim.closed
  refine ⟨hsim.bad, hlog, by rw [hlog, admission_bodies], hcl, ?_⟩
  intro hall
  have hcf : c.closed = false := by rw [hcl]; simp [hall]
  have hr := (hsim.rest hcf).1
  have := (hclosed.rest (by simpa using hall)).1
  simp only [List.nil_append] at this
  rw [this] at hr; exact hr

/-- ★ `run_prefix`: all segmentations of a stream of `k` frames followed by an incomplete tail
    (cuts inside the length prefix, inside bodies, several frames per segment): exactly the `k`
    queries are decoded, in order, the connection stays open and rests on the tail. -/
theorem gnet_run_prefix (dec : Bytes → Bool) (max : Nat) (frames : List Bytes) (tail : Bytes)
    (segs : List Bytes)
    (hlen : ∀ f ∈ frames, 0 < f.length ∧ f.length < 65536)
    (hdec : ∀ f ∈ frames, dec f = true)
    (htail : Incomplete tail)
    (hseg : ∀ s ∈ segs, s ≠ [])
    (hcat : segs.flatten = frames.flatMap frame ++ tail) :
    let c := runOps dec max (segs.map Op.seg) {}
    c.log.map Event.body = frames ∧ c.closed = false ∧ c.bad = false ∧ Rest c.cc c.inb tail := by
  intro c
  have hp : parse segs.flatten = (frames, tail) := by
    rw [hcat]; exact parse_frames frames tail (fun f hf => (hlen f hf).2) htail
  have hne : ∀ f ∈ (parse segs.flatten).1, f ≠ [] := by
    rw [hp]; intro f hf h0; have := (hlen f hf).1; simp [h0] at this
  have hall : frames.all dec = true := by simpa [List.all_eq_true] using hdec
  have htw : frames.takeWhile dec = frames := by
    have := takeWhile_append_all dec frames [] hall; simpa using this
  obtain ⟨hbad, _, hbodies, hcl, hrest⟩ := gnet_refines_parse dec max segs hseg hne
  rw [hp] at hbodies hcl hrest
  simp only [htw, hall] at hbodies hcl hrest
  exact ⟨hbodies, by simpa using hcl, hbad, hrest trivial⟩

/-- ★ `gnet_frames`: for ALL frame lists (each body 1..65535 octets, decodable) and ALL segmentations
    of their concatenation, the queries delivered by the real reassembly logic are exactly the frames,
    each once, in order; afterwards the connection is idle with an empty inbound buffer. -/
theorem gnet_frames (dec : Bytes → Bool) (max : Nat) (frames : List Bytes) (segs : List Bytes)
    (hlen : ∀ f ∈ frames, 0 < f.length ∧ f.length < 65536)
    (hdec : ∀ f ∈ frames, dec f = true)
    (hseg : ∀ s ∈ segs, s ≠ [])
    (hcat : segs.flatten = frames.flatMap frame) :
    let c := runOps dec max (segs.map Op.seg) {}
    c.log.map Event.body = frames ∧ c.closed = false ∧ c.bad = false ∧
      c.cc.buffer = none ∧ c.inb = [] := by
  intro c
  obtain ⟨h1, h2, h3, h4⟩ := gnet_run_prefix dec max frames [] segs hlen hdec (Or.inl (by simp)) hseg
    (by simpa using hcat)
  exact ⟨h1, h2, h3, h4.idle_of_nil⟩

/-- ★ Refinement with handler completions interleaved (any order, any time): for every sequence of
    segments and completions (no zero-length frame, no empty segment) the model's connection and the
    reference semantics agree on the decode log, the running handlers, every write, and the closed flag;
    the machine does not panic. -/
theorem gnet_refines_ref (dec : Bytes → Bool) (max : Nat) (ops : List Op)
    (h : noEmptyRun dec max ops {} = true) :
    Sim (drain (runOps dec max ops {})) (refDrain (refRun dec max ops {})) :=
  sim_drain (run_refines dec max ops {} {} sim_init h)

/-- ★ `cc.buffer` never holds data between `OnTraffic` calls (for every admissible run): either
    there is no buffer or `readN = 0` — because `Next` is all-or-nothing. Proved, not assumed. -/
theorem partial_buffer_empty (dec : Bytes → Bool) (max : Nat) (ops : List Op)
    (h : noEmptyRun dec max ops {} = true) :
    let c := runOps dec max ops {}
    c.closed = false → c.cc.buffer = none ∨ c.cc.readN = 0 := by
  intro c hc
  have hsim := run_refines dec max ops {} {} sim_init h
  exact (hsim.rest hc).1.readN_zero

/-- ★ `over_limit_refused`: when `max` handlers are already running, every query completed by the
    arriving segment is answered REFUSED (`c.Write`), none is dropped: one event per decodable frame,
    and the counter is left unchanged. -/
theorem over_limit_refused (dec : Bytes → Bool) (max : Nat) (cc : ConnCtx) (inb u seg : Bytes)
    (hr : Rest cc inb u) (hseg : seg ≠ []) (hne : ∀ f ∈ (parse (u ++ seg)).1, f ≠ [])
    (hfull : max ≤ cc.concurrent) :
    let r := onTraffic dec max ((inb ++ seg).length + 1) cc (inb ++ seg)
    r.evs = ((parse (u ++ seg)).1.takeWhile dec).map Event.refused ∧
    ((parse (u ++ seg)).1.all dec = true → r.cc.concurrent = cc.concurrent) := by
  intro r
  obtain ⟨g1, g2⟩ := good_step dec max cc inb u seg hr hseg hne
  rw [admission_over max _ _ hfull] at g1 g2
  refine ⟨g1, ?_⟩
  intro hall
  simp only [hall, if_true] at g2
  exact g2.2.2

/-- below the limit the query is handed to a handler and the counter grows by one; in every case
    each decodable frame produces exactly one event (one response). -/
theorem one_event_per_query (dec : Bytes → Bool) (max : Nat) (cc : ConnCtx) (inb u seg : Bytes)
    (hr : Rest cc inb u) (hseg : seg ≠ []) (hne : ∀ f ∈ (parse (u ++ seg)).1, f ≠ []) :
    (onTraffic dec max ((inb ++ seg).length + 1) cc (inb ++ seg)).evs.map Event.body =
      (parse (u ++ seg)).1.takeWhile dec := by
  obtain ⟨g1, _⟩ := good_step dec max cc inb u seg hr hseg hne
  rw [g1, admission_bodies]


/-- ★ `one_response_each`: for EVERY sequence of segments and handler completions (any completion
    order, any timing, no side condition) — once the running handlers have finished, the responses
    written are, as a multiset, exactly the decoded queries, each with the kind it is due
    (REFUSED iff it was over the limit when decoded): nothing dropped, nothing answered twice. -/
theorem one_response_each (dec : Bytes → Bool) (max : Nat) (ops : List Op) :
    let c := drain (runOps dec max ops {})
    c.writes.Perm (c.log.map Event.tag) ∧ c.pending = [] := by
  intro c
  have h := accounted_run dec max ops {} (by simp [Accounted])
  exact ⟨by simpa [c, drain, Accounted] using h, rfl⟩

/-- ★ the model satisfies the executable specification that judges the implementation's observed
    outcome — for every limit and every sequence of segments and completions (without zero-length
    frames / empty segments). -/
theorem model_meets_spec (c : Case) (h : caseOk c = true) : Gnet.spec c (modelObs c) = true := by
  have hs := gnet_refines_ref decB c.max c.ops h
  have : modelObs c = expected c := by
    simp only [modelObs, expected]; exact obs_of_sim hs
  simp [Gnet.spec, this]

/-- the reference outcome depends only on the concatenation of the segments -/
theorem expected_segs (max : Nat) (d1 d2 : Bool) (segs : List Bytes) :
    expected ⟨max, d1, segs.map Op.seg⟩ = expected ⟨max, d2, [Op.seg segs.flatten]⟩ := by
  have h1 := ref_segs decB max segs {} rfl (Or.inl (by simp))
  have h2 := ref_segs decB max [segs.flatten] {} rfl (Or.inl (by simp))
  simp only [List.flatten_cons, List.flatten_nil, List.append_nil] at h2
  simp only [expected, refDrain, obsOf]
  rw [h1.log, h1.closed, h1.pending, h1.writes]
  have e : List.map Op.seg [segs.flatten] = [Op.seg segs.flatten] := rfl
  rw [← e, h2.log, h2.closed, h2.pending, h2.writes]

/-- ★ segmentation is irrelevant: what the client and the upstream can observe of the gnet listener
    (multiset of (id, answered/REFUSED), queries forwarded, closed) is the same for every way of cutting
    the same byte stream into non-empty segments. -/
theorem segmentation_irrelevant (max : Nat) (segs : List Bytes)
    (h : caseOk ⟨max, false, segs.map Op.seg⟩ = true) :
    Framing.spec max segs.flatten (modelObs ⟨max, false, segs.map Op.seg⟩) = true := by
  have := model_meets_spec ⟨max, false, segs.map Op.seg⟩ h
  simp only [Framing.spec, Gnet.spec] at this ⊢
  rw [← expected_segs max false false segs]
  exact this

/-! ## several connections on one gnet listener -/

/-- ★ `admission_own_history`: for ALL interleavings of the events of any number of connections
    (accepts, segments, peers going away with queries still at the upstream, replies coming back in any
    order, also after the connection is gone) the state of connection `k` — its in-flight counter, hence
    every admission decision (REFUSED iff ITS OWN in-flight ≥ max), its log and its writes — is a function of
    `k`'s own events only: it equals the run of those events alone. (In the code: `OnOpen` allocates a fresh
    `connCtx`, pinned; nothing of another connection can reach it.) -/
theorem admission_own_history (dec : Bytes → Bool) (max : Nat) (ops : List GnetMulti.MOp) (k : Nat) :
    GnetMulti.mrun dec max ops (fun _ => {}) k = GnetMulti.lrun dec max (GnetMulti.proj k ops) {} :=
  GnetMulti.mrun_proj dec max ops _ k

/-- corollary: events of other connections can be added, removed or reordered at will without changing
    what connection `k` does. -/
theorem other_connections_irrelevant (dec : Bytes → Bool) (max : Nat) (ops ops' : List GnetMulti.MOp) (k : Nat)
    (h : GnetMulti.proj k ops = GnetMulti.proj k ops') :
    GnetMulti.mrun dec max ops (fun _ => {}) k = GnetMulti.mrun dec max ops' (fun _ => {}) k := by
  rw [admission_own_history, admission_own_history, h]

/-- ★ every connection of a multi-connection history refines its own reference run (stream parser +
    its own admission counter; replies after `OnClose` are never written), and the model meets the
    executable specification that judges the implementation per connection. -/
theorem multi_model_meets_spec (c : GnetMulti.MCase) (h : GnetMulti.caseOk c = true) :
    GnetMulti.spec c (GnetMulti.modelObs c) = true := by
  simp only [GnetMulti.spec, GnetMulti.modelObs, List.length_map, List.length_range, beq_self_eq_true,
    Bool.true_and, List.all_eq_true, List.mem_range]
  intro i hi
  simp only [List.getElem?_map, List.getElem?_range hi, Option.map_some]
  simp only [GnetMulti.caseOk, List.all_eq_true, List.mem_range] at h
  have hk := h i hi
  have hs := GnetMulti.msim_drain
    (GnetMulti.msim_run decB c.max (GnetMulti.proj (i + 1) c.ops) {} {} GnetMulti.msim_init hk)
  have : GnetMulti.cobsOf (GnetMulti.mdrain (GnetMulti.mrun decB c.max c.ops (fun _ => {}) (i + 1))) =
      GnetMulti.expectedOf c (i + 1) := by
    rw [GnetMulti.mrun_proj]
    exact GnetMulti.cobs_of_msim hs
  simp [GnetMulti.specConn, this]

/-- the multi-connection specification is not vacuous: limit 1, connection 1 has one query at the upstream
    and its peer goes away, connection 2 is accepted and gets one query in flight, connection 1's late reply
    comes back, then connection 2's second query MUST be REFUSED (its own in-flight is still 1). -/
example :
    let q1 : Bytes := 0 :: 1 :: 1 :: List.replicate 14 0
    let q2 : Bytes := 0 :: 2 :: 1 :: List.replicate 14 0
    let q3 : Bytes := 0 :: 3 :: 1 :: List.replicate 14 0
    let s := GnetMulti.mrun decB 1
      [⟨1, .opn⟩, ⟨1, .seg (frame q1)⟩, ⟨1, .cls⟩, ⟨2, .opn⟩, ⟨2, .seg (frame q2)⟩, ⟨1, .rel 0⟩,
       ⟨2, .seg (frame q3)⟩] (fun _ => {})
    (s 2).c.log = [.query q2, .refused q3] ∧ (s 1).late = 1 ∧ (s 1).c.writes = [] := by
  decide

/-! ## the goroutine listener (tcp, DoT): blocking reader -/

/-- ★ `tcp_frames`: for ALL frame lists (bodies up to 65535 octets, decodable) and ALL chunkings of their
    concatenation (whatever `Read` returns), every completion schedule and limiter behaviour, `handleConn`
    decodes exactly the frames, once each, in order, and then sees a clean EOF on a frame boundary. -/
theorem tcp_frames (dec : Bytes → Bool) (max : Nat) (done : Nat → Nat) (lim : Nat → Bool)
    (frames : List Bytes) (chunks : List Bytes)
    (hlen : ∀ f ∈ frames, f.length < 65536) (hdec : ∀ f ∈ frames, dec f = true)
    (hcat : chunks.flatten = frames.flatMap frame) :
    let r := Framing.handleConn dec max done lim (chunks.flatten.length + 1) 0 chunks 0
    r.1.map Event.body = frames ∧ r.2 = .closed 0 := by
  intro r
  obtain ⟨g1, g2⟩ := Framing.handleConn_refines dec max done lim (chunks.flatten.length + 1) 0 chunks 0 (by omega)
  have hp : parse chunks.flatten = (frames, []) := by
    rw [hcat]; have := parse_frames frames [] hlen (Or.inl (by simp)); simpa using this
  have hall : frames.all dec = true := by simpa [List.all_eq_true] using hdec
  have htw : frames.takeWhile dec = frames := by
    have := takeWhile_append_all dec frames [] hall; simpa using this
  rw [hp] at g1
  simp only [Framing.endOf, hp, hall, if_true] at g2
  exact ⟨by rw [g1, htw], g2⟩

/-- `tcp_run_prefix`: with an incomplete frame at the end of the stream the frames before it are
    decoded and the loop ends with `ReadMsgFromTCP`'s error after `tail.length` octets. -/
theorem tcp_run_prefix (dec : Bytes → Bool) (max : Nat) (done : Nat → Nat) (lim : Nat → Bool)
    (frames : List Bytes) (tail : Bytes) (chunks : List Bytes)
    (hlen : ∀ f ∈ frames, f.length < 65536) (hdec : ∀ f ∈ frames, dec f = true)
    (htail : Incomplete tail)
    (hcat : chunks.flatten = frames.flatMap frame ++ tail) :
    let r := Framing.handleConn dec max done lim (chunks.flatten.length + 1) 0 chunks 0
    r.1.map Event.body = frames ∧ r.2 = .closed tail.length := by
  intro r
  obtain ⟨g1, g2⟩ := Framing.handleConn_refines dec max done lim (chunks.flatten.length + 1) 0 chunks 0 (by omega)
  have hp : parse chunks.flatten = (frames, tail) := by
    rw [hcat]; exact parse_frames frames tail hlen htail
  have hall : frames.all dec = true := by simpa [List.all_eq_true] using hdec
  have htw : frames.takeWhile dec = frames := by
    have := takeWhile_append_all dec frames [] hall; simpa using this
  rw [hp] at g1
  simp only [Framing.endOf, hp, hall, if_true] at g2
  exact ⟨by rw [g1, htw], g2⟩

/-- ★ the blocking reader refines the reference parser for every byte stream and chunking (no
    hypothesis on the stream at all: zero-length frames reach `UnpackMsg` as empty bodies). -/
theorem tcp_refines_parse (dec : Bytes → Bool) (max : Nat) (done : Nat → Nat) (lim : Nat → Bool)
    (chunks : List Bytes) :
    let r := Framing.handleConn dec max done lim (chunks.flatten.length + 1) 0 chunks 0
    r.1.map Event.body = (parse chunks.flatten).1.takeWhile dec ∧ r.2 = Framing.endOf dec chunks.flatten :=
  Framing.handleConn_refines dec max done lim (chunks.flatten.length + 1) 0 chunks 0 (by omega)

/-- ★ the goroutine listener's model satisfies the executable specification (queries held until the
    stream is read, limiter open): for every limit and every chunking. -/
theorem tcp_model_meets_spec (max : Nat) (chunks : List Bytes) :
    Framing.spec max chunks.flatten (Framing.tcpObs max chunks) = true := by
  have h1 := Framing.handleConn_nodone decB max (chunks.flatten.length + 1) 0 chunks 0 (by omega)
  have h2 := (Framing.handleConn_refines decB max (fun _ => 0) (fun _ => false)
    (chunks.flatten.length + 1) 0 chunks 0 (by omega)).2
  have hne : ∀ n, (Framing.End.closed n == Framing.End.invalid) = false := by intro n; rfl
  have : Framing.tcpObs max chunks = expected ⟨max, false, [Op.seg chunks.flatten]⟩ := by
    simp only [Framing.tcpObs, h1, h2, Framing.endOf, expected, refRun, List.foldl, refStep, refDrain,
      Framing.obsOfEvents]
    by_cases hall : (parse chunks.flatten).1.all decB = true <;> simp [hall, hne]
  simp [Framing.spec, Gnet.spec, this]

/-- ★ the goroutine listener's model satisfies the executable specification for EVERY completion
    schedule (how many handlers finish while each message is read), every limit and every chunking:
    a query is REFUSED iff `max` handlers are running when it is decoded, none is dropped. -/
theorem tcp_model_meets_spec_sched (max : Nat) (done : Nat → Nat) (chunks : List Bytes) :
    Framing.specS max done chunks.flatten (Framing.tcpObsS max done chunks) = true := by
  have h1 := Framing.handleConn_sched decB max done (fun _ => false) (chunks.flatten.length + 1) 0 chunks 0
    (by omega)
  have h2 := (Framing.handleConn_refines decB max done (fun _ => false)
    (chunks.flatten.length + 1) 0 chunks 0 (by omega)).2
  have hne : ∀ n, (Framing.End.closed n == Framing.End.invalid) = false := by intro n; rfl
  have : Framing.tcpObsS max done chunks = Framing.expectedS max done chunks.flatten := by
    simp only [Framing.tcpObsS, h1, h2, Framing.endOf, Framing.expectedS]
    by_cases hall : (parse chunks.flatten).1.all decB = true <;> simp [hall, hne]
  simp [Framing.specS, this]

/-- ★ ping-pong (the client waits for each response before it sends the next query; limit ≥ 1): the
    goroutine listener's model answers every decodable frame through the upstream and refuses none,
    for every chunking and ANY number of queries (also more than the limit). -/
theorem tcp_pingpong_meets_spec (max : Nat) (hmax : 1 ≤ max) (chunks : List Bytes) :
    Framing.ppSpec chunks.flatten (Framing.tcpObsPP max chunks) = true := by
  have h1 := Framing.handleConn_pingpong decB max hmax (chunks.flatten.length + 1) 0 chunks 0
    (by omega) (by omega)
  have h2 := (Framing.handleConn_refines decB max (fun _ => 1) (fun _ => false)
    (chunks.flatten.length + 1) 0 chunks 0 (by omega)).2
  have hne : ∀ n, (Framing.End.closed n == Framing.End.invalid) = false := by intro n; rfl
  have : Framing.tcpObsPP max chunks = Framing.ppExpected chunks.flatten := by
    simp only [Framing.tcpObsPP, h1, h2, Framing.endOf, Framing.ppExpected]
    by_cases hall : (parse chunks.flatten).1.all decB = true <;> simp [hall, hne]
  simp [Framing.ppSpec, this]

/-- over the limit (or when the limiter objects) the goroutine listener answers REFUSED — the query
    is not dropped: it is the head of the event list. -/
theorem tcp_over_limit_refused (dec : Bytes → Bool) (max : Nat) (done : Nat → Nat) (lim : Nat → Bool)
    (fuel i : Nat) (cs rest : Framing.Chunks) (running : Nat) (body : Bytes)
    (hr : Framing.readMsgFromTCP dec cs = .msg body rest)
    (hover : running - done i + 1 > max ∨ lim i = true) :
    ∃ evs e, Framing.handleConn dec max done lim (fuel + 1) i cs running = (.refused body :: evs, e) := by
  have : (decide (running - done i + 1 > max) || lim i) = true := by
    rcases hover with h | h <;> simp [h]
  refine ⟨(Framing.handleConn dec max done lim fuel (i + 1) rest (running - done i)).1,
    (Framing.handleConn dec max done lim fuel (i + 1) rest (running - done i)).2, ?_⟩
  simp only [Framing.handleConn, hr, this, if_true]

/-! ## timed segmentation: the idle deadline -/

/-- ★ `idle_never_fires` (tcp, DoT): because the read deadline is re-armed at the top of EVERY pass of
    `handleConn`'s loop (pinned), for every timing of the stream — however it is cut into segments and however
    long the pauses add up to — in which each message is complete no later than `idle` after the previous one
    was (the first one after the accept), and for any dispatch/scheduling delays `lag`, the deadline never
    fires: every message is read. -/
theorem idle_never_fires (idle : Nat) (lag : Nat → Nat) (t0 : Nat) (arr : List Nat)
    (h : Framing.paced idle t0 arr) : Framing.idleLoop idle lag 0 t0 arr = arr.length :=
  Framing.idleLoop_paced idle lag arr 0 t0 t0 (Nat.le_refl _) h

/-- ★ gnet: the idle timer is reset on every segment (pinned), so a connection on which every pause between
    segments is shorter than `idle` is never closed by it, whatever the pauses add up to. -/
theorem gnet_idle_never_fires (idle t0 : Nat) (ts : List Nat) (h : Framing.gapsBelow idle t0 ts) :
    Framing.gnetIdle idle t0 ts = ts.length :=
  Framing.gnetIdle_gaps idle ts t0 t0 (Nat.le_refl _) h

/-- ★ `waiting_client_never_closed` (tcp, DoT, after the fix "a connection with queries in flight is not idle"):
    for every timing, every behaviour `busy` of the handlers and any scheduling delays, a client that for each
    query either keeps the pace or — while answers are still outstanding during the whole wait — sends the
    query in one piece whenever it likes (also after many times the idle timeout) has every query read: the
    deadline firing with `n == 0` and queries in flight only re-arms. -/
theorem waiting_client_never_closed (idle : Nat) (hidle : 1 ≤ idle) (busy : Nat → Bool) (lag : Nat → Nat)
    (t0 : Nat) (arr : List Nat) (h : Framing.pacedB idle busy t0 arr) :
    Framing.idleLoopB idle busy lag (Framing.fuelFor t0 arr) 0 t0 (arr.map (fun a => (a, a))) = arr.length :=
  Framing.idleLoopB_pacedB idle hidle busy lag _ arr 0 t0 t0 (Nat.le_refl _) h (Nat.le_refl _)

/-- ★ a partial message still times out (`n > 0`): if some of its octets are there when the deadline passes
    and the rest is not, the connection is closed, queries in flight or not. -/
theorem partial_frame_times_out (idle : Nat) (busy : Nat → Bool) (lag : Nat → Nat) (fuel j now p a : Nat)
    (as : List (Nat × Nat)) (hp : p ≤ now + idle) (ha : now + idle < a) :
    Framing.idleLoopB idle busy lag (fuel + 1) j now ((p, a) :: as) = 0 :=
  Framing.idleLoopB_partial idle busy lag fuel j now p a as hp ha

/-- ★ gnet: the timer callback re-arms while queries are in flight, so a connection whose every pause is
    shorter than `idle` OR covered by outstanding answers is never closed by it. -/
theorem gnet_waiting_never_closed (idle : Nat) (hidle : 1 ≤ idle) (busy : Nat → Bool) (t0 : Nat) (ts : List Nat)
    (h : Framing.gapsBelowB idle busy t0 ts) :
    Framing.gnetIdleB idle busy (Framing.fuelFor t0 ts) t0 ts = ts.length :=
  Framing.gnetIdleB_gaps idle hidle busy _ ts t0 t0 (Nat.le_refl _) h (Nat.le_refl _)

/-- the harness' slow-upstream script (idle 1000: query 1 at 100, answered at 1400; query 2 in one piece at
    1600) is inside `pacedB` although 1600 > 100 + 1000; without the `continue` branch (`busy` never true) the
    second query is lost. -/
example : Framing.idleLoopB 1000 (fun t => decide (t < 1400)) (fun _ => 0) 10 0 0 [(100, 100), (1600, 1600)] = 2 := by
  decide
example : Framing.idleLoopB 1000 (fun _ => false) (fun _ => 0) 10 0 0 [(100, 100), (1600, 1600)] = 1 := by decide

/-- the hypothesis of `idle_never_fires` is about whole messages, and necessarily so: one message whose
    two halves arrive at 600 and 1200 (no pause reaches idle = 1000) is NOT read — the code arms one absolute
    deadline per message. (A legal behaviour of the code; the timed scripts of the harness stay inside `paced`.) -/
example : Framing.idleLoop 1000 (fun _ => 0) 0 0 [1200] = 0 := by decide
example : Framing.paced 1000 0 [100, 750, 1350] ∧ Framing.idleLoop 1000 (fun _ => 0) 0 0 [100, 750, 1350] = 3 :=
  ⟨by simp [Framing.paced], by decide⟩

/-- what the pin on "SetReadDeadline directly before ReadMsgFromTCP, unconditionally" guards against: with the
    deadline re-armed only when the read buffer is empty, the same paced timing (query 1 at 100, quiet, one
    segment with query 2 and the start of query 3 at 750, the rest at 1350) loses query 3. -/
example : Framing.idleLoopGuarded 1000 1000 0 [(100, false), (750, false), (1350, true)] = 2 := by decide

/-! ## response framing -/

/-- ★ `resp_frame_prefix`: the buffer `packRespTCP` hands to the single `Write`/`AsyncWrite` starts with
    the big-endian length of the rest, the rest is the packed message, and it is at most 65535 octets. -/
theorem resp_frame_prefix (body : Bytes) (h : body.length ≤ 65535) :
    (Framing.packRespTCP body).take 2 = be16 ((Framing.packRespTCP body).length - 2) ∧
    (Framing.packRespTCP body).drop 2 = body ∧
    (Framing.packRespTCP body).length - 2 ≤ 65535 ∧
    (∀ a b rest, Framing.packRespTCP body = a :: b :: rest → rd16 a b = rest.length) := by
  refine ⟨by simp [Framing.packRespTCP, be16], by simp [Framing.packRespTCP, be16],
    by simp [Framing.packRespTCP, be16]; omega, ?_⟩
  intro a b rest hab
  simp only [Framing.packRespTCP, be16, List.cons_append, List.nil_append, List.cons.injEq] at hab
  obtain ⟨ha, hb, hr⟩ := hab
  rw [← ha, ← hb, ← hr]
  exact rd16_be16 _ (by omega)

/-- ★ responses never mix: a client that reads the concatenation of the buffers written (one `Write`
    per response, in whatever order the handlers completed) re-frames it into exactly those responses. -/
theorem responses_reframe (resps : List Bytes) (h : ∀ r ∈ resps, r.length ≤ 65535) :
    parse (resps.map Framing.packRespTCP).flatten = (resps, []) := by
  have := parse_frames resps [] (fun f hf => by have := h f hf; omega) (Or.inl (by simp))
  rw [show Framing.packRespTCP = frame from rfl]
  simpa [List.flatMap] using this

/-! ## non-vacuity -/

/-- the hypotheses of `gnet_frames` are satisfiable, with a cut inside the length prefix -/
example : ∃ (frames segs : List Bytes),
    (∀ f ∈ frames, 0 < f.length ∧ f.length < 65536) ∧ (∀ s ∈ segs, s ≠ []) ∧
    segs.flatten = frames.flatMap frame :=
  ⟨[[7], [8, 9]], [[0], [1, 7, 0], [2, 8, 9]], by decide, by decide, by decide⟩

/-- the specification is strict: it rejects an outcome in which a response is missing … -/
theorem spec_rejects_missing_response (c : Case) (o : Obs) (h : o.w.length < (expected c).w.length) :
    Gnet.spec c o = false := by
  have hl : (sortW o.w).length ≠ (sortW (expected c).w).length := by
    simp only [sortW, List.length_mergeSort]; omega
  have : (sortW o.w == sortW (expected c).w) = false := by
    apply Bool.eq_false_iff.mpr
    intro hb
    exact hl (congrArg List.length (eq_of_beq hb))
  simp [Gnet.spec, this]

/-- … and one in which the connection was (not) closed when it should (not) have been. -/
theorem spec_rejects_wrong_close (c : Case) (o : Obs) (h : o.closed ≠ (expected c).closed) :
    Gnet.spec c o = false := by
  have : (o.closed == (expected c).closed) = false := by simpa using h
  simp [Gnet.spec, this]

/-- `over_limit_refused` is not vacuous: limit 1, one handler running, idle connection, one frame. -/
example : (onTraffic (fun _ => true) 1 4 ⟨none, 0, false, 1⟩ [0, 1, 7]).evs = [.refused [7]] := by decide

/-- The restriction to frames of length ≥ 1 is necessary, and the model shows why: in the idle state a
    zero-length prefix makes `c.Next(0)` return EVERYTHING that is buffered, and `UnpackMsg` is applied to
    all of it — if that happens to decode, the octets after `00 00` are served as a query (with the same
    octets cut right after the prefix the empty buffer fails to decode and the connection is closed).
    Observed on the real `OnTraffic` as well (see the report); zero-length frames are C01's business. -/
theorem zero_length_frame_quirk (dec : Bytes → Bool) (rest : Bytes) (h : dec rest = true) :
    (onTraffic dec 1 1 ⟨none, 0, false, 0⟩ (0 :: 0 :: rest)).evs = [.query rest] ∧
    (parse (0 :: 0 :: rest)).1.head? = some [] := by
  constructor
  · have hn : next (0 :: 0 :: rest) 2 = ([0, 0], rest) := by
      have := next_exact (0 :: 0 :: rest) 2 (by omega) (by simp)
      simpa using this
    have hz : rd16 0 0 = 0 := by decide
    have hb : next rest 0 = (rest, []) := next_all rest _ (by omega)
    simp [onTraffic, readOne, hn, hz, hb, h, inboundBuffered]
  · have hz : rd16 0 0 = 0 := by decide
    rw [parse_complete 0 0 rest (by rw [hz]; omega)]
    simp [hz]

/-! ## tie to the source -/

/-- pinned source facts the models were transcribed from -/
theorem pins :
    -- (the integer / boolean tests of `OnTraffic` and the admission test of `handleConn` are tied by translation:
    -- `Lemmas/TranslatedC13`, `readBody_translated`, `readOne_translated`, `onTraffic_translated`,
    -- `handleConn_translated`, `idleLoopB_translated`, `gnetIdleB_translated`; the pins below are calls, statement order, counts and nil tests)
    Facts.gnetfr_bufCond = "cc.buffer != nil" ∧
    Facts.gnetfr_nextHdrRemains = "b, _ := c.Next(hdrRemains)" ∧
    Facts.gnetfr_msgLen = "msgLen := binary.BigEndian.Uint16(cc.buffer)" ∧
    Facts.gnetfr_bodyBuf = "cc.buffer = pool.GetBuf(int(msgLen))" ∧
    Facts.gnetfr_nextBodyRemains = "b, _ := c.Next(bodyRemains)" ∧
    Facts.gnetfr_unpackBuf = "m, err = dnsmsg.UnpackMsg(cc.buffer)" ∧
    Facts.gnetfr_copyCount = 2 ∧
    Facts.gnetfr_nextHdr = "hdr, _ := c.Next(2)" ∧
    Facts.gnetfr_lenDecode = "l := int(binary.BigEndian.Uint16(hdr))" ∧
    Facts.gnetfr_nextBody = "body, _ := c.Next(l)" ∧
    Facts.gnetfr_unpackBody = "m, err = dnsmsg.UnpackMsg(body)" ∧
    Facts.gnetfr_errCond = "err != nil" ∧
    Facts.gnetfr_closeCount = 1 ∧
    Facts.gnetfr_ccrAdd = "ccr := cc.concurrentRequests.Add(1)" ∧
    Facts.gnetfr_refusedResp = "resp := mustHaveRespB(m, nil, dnsmsg.RCodeRefused, true, 0)" ∧
    Facts.gnetfr_write = "c.Write(resp)" ∧
    Facts.gnetfr_writeCount = 1 ∧
    Facts.gnetfr_asyncResp = "buf := mustHaveRespB(m, rc.Response.Msg, dnsmsg.RCodeRefused, true, 0)" ∧
    Facts.gnetfr_asyncWriteArg = "buf" ∧
    Facts.gnetfr_asyncWriteCount = 1 ∧
    Facts.gnetfr_decCount = 2 ∧
    Facts.gnetfr_gotoCount = 1 ∧
    Facts.gnetfr_defaultMax = 100 ∧
    Facts.gnetfr_defaultMaxUse = "maxConcurrent = defaultMaxConcurrentRequestPreTCPConn" ∧
    Facts.tcpfr_defaultMaxUse = "maxConcurrent = defaultMaxConcurrentRequestPreTCPConn" ∧
    Facts.tcpfr_read = "m, n, err := dnsutils.ReadMsgFromTCP(br)" ∧
    Facts.tcpfr_ccAdd = "cc := concurrent.Add(1)" ∧
    Facts.tcpfr_refusedResp = "resp := mustHaveRespB(m, nil, dnsmsg.RCodeRefused, true, 0)" ∧
    Facts.tcpfr_refusedWriteCount = 1 ∧
    Facts.tcpfr_decCount = 2 ∧
    Facts.tcpfr_respBuf = "buf := mustHaveRespB(m, rc.Response.Msg, dnsmsg.RCodeRefused, true, 0)" ∧
    Facts.tcpfr_respWrite = "_, err := c.Write(buf)" ∧
    Facts.tcpfr_respWriteCount = 1 ∧
    Facts.tcpfr_deadlineStmt = "c.SetReadDeadline(time.Now().Add(s.idleTimeout))" ∧
    Facts.tcpfr_deadlineCount = 1 ∧
    Facts.tcpfr_deadlineBeforeRead = 1 ∧
    Facts.tcpfr_bufferedCount = 0 ∧
    Facts.gnetfr_timerRearm = "cc.idleTimer.Reset(e.idleTimeout)" ∧
    Facts.gnetfr_timerClose = "c.Close()" ∧
    Facts.tcpfr_idleFromCfg = "idleTimeout := time.Duration(cfg.IdleTimeout) * time.Second" ∧
    Facts.tcpfr_idleDefault = 10000000000 ∧
    Facts.gnetfr_idleReset = "cc.idleTimer.Reset(e.idleTimeout)" ∧
    Facts.gnetfr_idleResetFirst = 2 ∧
    Facts.gnetfr_idleTimerArg = "e.idleTimeout" ∧
    Facts.gnetfr_freshCtx =
      "cc := &connCtx{ remoteAddr: netAddr2NetipAddr(c.RemoteAddr()), localAddr: netAddr2NetipAddr(c.LocalAddr()), }" ∧
    Facts.gnetfr_setCtx = "c.SetContext(cc)" ∧
    Facts.gnetfr_openPoolGets = 0 ∧
    Facts.gnetfr_closePoolPuts = 0 ∧
    Facts.gnetfr_closeCtx = "cc := c.Context().(*connCtx)" ∧
    Facts.tcpfr_hdrBuf = "hdrBuf := pool.GetBuf(2)" ∧
    Facts.tcpfr_readFullHdr = "nr, err := io.ReadFull(c, hdrBuf)" ∧
    Facts.tcpfr_length = "length := binary.BigEndian.Uint16(hdrBuf)" ∧
    Facts.tcpfr_msgBuf = "msgBuf := pool.GetBuf(int(length))" ∧
    Facts.tcpfr_readFullBody = "nr, err = io.ReadFull(c, msgBuf)" ∧
    Facts.packtcp_getBuf = "b := pool.GetBuf(2 + m.Len())" ∧
    Facts.packtcp_pack = "n, err := m.Pack(b[2:], compression, 65535)" ∧
    Facts.packtcp_prefix = "binary.BigEndian.PutUint16(b, uint16(n))" ∧
    Facts.packtcp_trim = "b = b[:2+n]" ∧
    Facts.packtcp_mustTcp = 2 := by
  repeat' constructor
  all_goals decide

end MosVerif.C13
