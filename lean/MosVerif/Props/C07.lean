/-
  C07 — Cached answers go only to the same question and client group, unchanged.

  Models: `Model/CacheKey` (cacheKey + ToLowerName), `Model/Netlist` (netlist + range file loader +
  ipMarker.Mark), `Model/MemCache` (the concurrent memory cache with explicit entry locks and an
  adversarial backend, the value codec), `Model/QCache` (MemoryCache on a backend with otter's
  observable quirks, against the ideal TTL map).
  Helper lemmas: `Lemmas/CacheKeyLemmas`, `Lemmas/NetlistLemmas`, `Lemmas/MarkerLemmas`,
  `Lemmas/MemCacheLemmas`, `Lemmas/QCacheLemmas`.
-/
import MosVerif.Lemmas.CacheKeyLemmas
import MosVerif.Lemmas.MarkerLemmas
import MosVerif.Lemmas.MemCacheLemmas
import MosVerif.Lemmas.QCacheLemmas
import MosVerif.Lemmas.TranslatedC07
import MosVerif.Lemmas.TranslatedCacheKey
import MosVerif.Generated.Facts
namespace MosVerif.C07

/-! ## 1. the cache key -/
section CacheKeyPart
open MosVerif.CacheKey

/-- `cacheKey` never panics and writes every octet of its buffer: the result is exactly
    `name ‖ 0 ‖ class₂ ‖ type₂ ‖ mark` whatever the recycled buffer held. -/
theorem key_layout (dirty : Bytes) (q : Question) (mark : Bytes) :
    cacheKey dirty q mark = some (keyLayout q mark) := cacheKey_eq dirty q mark

/-- ★ the key does not depend on the previous content of the pooled buffer
    (false before the D7 fix: the class octets were never written). -/
theorem key_deterministic (d₁ d₂ : Bytes) (q : Question) (m : Bytes) :
    cacheKey d₁ q m = cacheKey d₂ q m := by
  rw [cacheKey_eq, cacheKey_eq]

/-- the same for the key as computed on the request path (after `ToLowerName`) -/
theorem reqKey_deterministic (d₁ d₂ : Bytes) (q : Question) (m : Bytes) :
    reqKey d₁ q m = reqKey d₂ q m := key_deterministic ..

/-- ★ equal keys ⇒ equal name octets, class, type and group label — for well-formed wire names
    (sequences of non-empty labels); no condition on class, type or label (false before the D21
    fix: without the terminator `name‖class` can re-parse). -/
theorem key_injective_raw {d₁ d₂ : Bytes} {q₁ q₂ : Question} {m₁ m₂ : Bytes}
    (h₁ : WfName q₁.name) (h₂ : WfName q₂.name)
    (h : cacheKey d₁ q₁ m₁ = cacheKey d₂ q₂ m₂) : q₁ = q₂ ∧ m₁ = m₂ := by
  rw [cacheKey_eq, cacheKey_eq] at h
  exact keyLayout_inj h₁ h₂ (Option.some.inj h)

/-- ★ on the request path: equal keys ⇒ the lower-cased names, the classes, the types and the
    client groups are equal (any two valid wire names, any class/type/label, any buffers). -/
theorem key_injective {d₁ d₂ : Bytes} {q₁ q₂ : Question} {m₁ m₂ : Bytes}
    (h₁ : WfName63 q₁.name) (h₂ : WfName63 q₂.name)
    (h : reqKey d₁ q₁ m₁ = reqKey d₂ q₂ m₂) :
    toLowerName q₁.name = toLowerName q₂.name ∧ q₁.cls = q₂.cls ∧ q₁.typ = q₂.typ ∧ m₁ = m₂ := by
  obtain ⟨hq, hm⟩ := key_injective_raw (q₁ := { q₁ with name := toLowerName q₁.name })
    (q₂ := { q₂ with name := toLowerName q₂.name }) (wf_toLowerName h₁) (wf_toLowerName h₂) h
  simp only [Question.mk.injEq] at hq
  exact ⟨hq.1, hq.2.1, hq.2.2, hm⟩

/-- `ToLowerName` on a valid name of at most 254 octets is plain ASCII lower-casing of every octet
    (length octets are below 'A'), so "same lower-cased name" is "same name, ASCII-case-insensitively". -/
theorem lower_is_casefold {n : Bytes} (h : WfName63 n) (hl : n.length ≤ 254) :
    toLowerName n = n.map lowerByte := toLowerName_eq_map h hl

/-- ★ both directions: two requests get the same key **iff** they agree on the name
    (case-insensitively), the class, the type and the client group. -/
theorem key_eq_iff {d₁ d₂ : Bytes} {q₁ q₂ : Question} {m₁ m₂ : Bytes}
    (h₁ : WfName63 q₁.name) (h₂ : WfName63 q₂.name) (l₁ : q₁.name.length ≤ 254) (l₂ : q₂.name.length ≤ 254) :
    reqKey d₁ q₁ m₁ = reqKey d₂ q₂ m₂ ↔
      (q₁.name.map lowerByte = q₂.name.map lowerByte ∧ q₁.cls = q₂.cls ∧ q₁.typ = q₂.typ ∧ m₁ = m₂) := by
  constructor
  · intro h
    have := key_injective h₁ h₂ h
    rwa [lower_is_casefold h₁ l₁, lower_is_casefold h₂ l₂] at this
  · rintro ⟨hn, hc, ht, hm⟩
    unfold reqKey
    rw [cacheKey_eq, cacheKey_eq, lower_is_casefold h₁ l₁, lower_is_casefold h₂ l₂, hn, hc, ht, hm]

theorem beq_of_iff {a b : Bool} (h : a = true ↔ b = true) : (a == b) = true := by
  cases a <;> cases b <;> simp_all

/-- ★ (component `cachekey`) for every pair of queries with valid names, both modes and every dirt
    byte, the model's three keys satisfy the executable specification. -/
theorem cachekey_meets_spec (c : Case)
    (h₁ : WfName63 c.q1.name) (h₂ : WfName63 c.q2.name)
    (l₁ : c.q1.name.length ≤ 254) (l₂ : c.q2.name.length ≤ 254) :
    ∃ o, model c = some o ∧ spec c o = true := by
  cases hl : c.lower with
  | false =>
    refine ⟨⟨keyLayout c.q1 c.m1, keyLayout c.q1 c.m1, keyLayout c.q2 c.m2⟩, ?_, ?_⟩
    · simp [model, keyFor, hl, cacheKey_eq]
    · simp only [spec, sameTuple, hl, beq_self_eq_true, Bool.true_and, Bool.false_eq_true, if_false]
      apply beq_of_iff
      simp only [beq_iff_eq, Bool.and_eq_true]
      constructor
      · intro he
        obtain ⟨hq, hm⟩ := keyLayout_inj h₁.wf h₂.wf he
        simp [hq, hm]
      · rintro ⟨⟨⟨a, b⟩, c'⟩, d⟩
        have : c.q1 = c.q2 := by
          cases hq1 : c.q1; cases hq2 : c.q2
          simp_all
        rw [this, d]
  | true =>
    refine ⟨⟨keyLayout { c.q1 with name := toLowerName c.q1.name } c.m1,
             keyLayout { c.q1 with name := toLowerName c.q1.name } c.m1,
             keyLayout { c.q2 with name := toLowerName c.q2.name } c.m2⟩, ?_, ?_⟩
    · simp [model, keyFor, hl, reqKey, cacheKey_eq]
    · simp only [spec, sameTuple, hl, beq_self_eq_true, Bool.true_and, if_true]
      have hiff := key_eq_iff (d₁ := []) (d₂ := []) (m₁ := c.m1) (m₂ := c.m2) h₁ h₂ l₁ l₂
      unfold reqKey at hiff
      rw [cacheKey_eq, cacheKey_eq] at hiff
      simp only [Option.some.injEq] at hiff
      apply beq_of_iff
      simp only [beq_iff_eq, Bool.and_eq_true]
      rw [hiff]
      constructor
      · rintro ⟨a, b, c', d⟩; exact ⟨⟨⟨a, b⟩, c'⟩, d⟩
      · rintro ⟨⟨⟨a, b⟩, c'⟩, d⟩; exact ⟨a, b, c', d⟩

/-- the driver's validity check implies the hypotheses above -/
theorem driver_check_sound (n : Bytes) (h : wfNameB 255 n = true) : WfName63 n := wfNameB_sound 255 n h

/-! non-vacuity. `www.a` = `03 77 77 77 01 61`; the D21 witness: before the terminator was added,
    (`\x01a`, class 0x0161, type 1, mark `\x00\x01m`) and (`\x01a\x01a`, class 1, type 1, mark `m`)
    had the same key. -/
example : WfName63 [1, 97] := .cons 1 [97] [] (by decide) (by decide) rfl .nil
example : WfName63 [1, 97, 1, 97] :=
  .cons 1 [97] [1, 97] (by decide) (by decide) rfl (.cons 1 [97] [] (by decide) (by decide) rfl .nil)
example : cacheKey [0xee, 0xee, 0xee, 0xee, 0xee, 0xee, 0xee, 0xee, 0xee, 0xee] ⟨[1, 97], 0x0161, 1⟩ [0, 1, 109]
    = some [1, 97, 0, 1, 97, 0, 1, 0, 1, 109] := by decide
example : cacheKey [] ⟨[1, 97, 1, 97], 1, 1⟩ [109] = some [1, 97, 1, 97, 0, 0, 1, 0, 1, 109] := by decide
/-- the specification rejects the D7 behaviour (class octets left as found in the buffer) … -/
example : spec ⟨⟨[1, 97], 1, 1⟩, [], ⟨[1, 97], 3, 1⟩, [], false, 0xee⟩
    ⟨[1, 97, 0, 0xee, 0xee, 0, 1], [1, 97, 0, 0x11, 0x11, 0, 1], [1, 97, 0, 0xee, 0xee, 0, 1]⟩ = false := by decide
/-- … and the D21 behaviour (no terminator: two different tuples, one key). -/
example : spec ⟨⟨[1, 97], 0x0161, 1⟩, [0, 1, 109], ⟨[1, 97, 1, 97], 1, 1⟩, [109], false, 0⟩
    ⟨[1, 97, 1, 97, 0, 1, 0, 1, 109], [1, 97, 1, 97, 0, 1, 0, 1, 109], [1, 97, 1, 97, 0, 1, 0, 1, 109]⟩ = false := by decide
example : toLowerName [3, 87, 119, 87, 1, 65] = [3, 119, 119, 119, 1, 97] := by decide

end CacheKeyPart

/-! ## 2. the client group: netlist + range file -/
section NetlistPart
open MosVerif.Netlist

/-- `Add` only ever appends ranges with `start ≤ end` -/
theorem add_valid {V : Type} {b b' : List (Range V)} {s e : Addr} {v : V}
    (hb : ∀ r ∈ b, r.Valid) (h : builderAdd b s e v = some b') : ∀ r ∈ b', r.Valid := by
  unfold builderAdd at h
  split at h
  · cases h
  · simp only at h
    split at h
    · cases h
    · next hc =>
      simp only [Option.some.injEq] at h
      subst h
      intro r hr
      rcases List.mem_append.mp hr with hr | hr
      · exact hb r hr
      · simp only [List.mem_singleton] at hr
        subst hr
        have : ¬ (addr2Ipv6 e).val < (addr2Ipv6 s).val := fun h' => hc ((cmp_gt_iff _ _).mpr h')
        unfold Range.Valid
        simp only
        omega

/-- ★ `lookup_correct`: if `Build` succeeds on ranges added through `Add`, `Lookup` never panics
    and returns `v` exactly when some added range with value `v` contains the address
    (addresses compared as 128-bit numbers). -/
theorem lookup_correct {V : Type} {b l : List (Range V)} (hv : ∀ r ∈ b, r.Valid)
    (h : build b = some l) (a : Ipv6) :
    ∃ res, lookup l a = some res ∧
      ∀ v, res = some v ↔ ∃ r ∈ b, r.start.val ≤ a.val ∧ a.val ≤ r.stop.val ∧ r.v = v := by
  obtain ⟨hsep, hvl, hperm⟩ := build_sep hv h
  obtain ⟨res, hres, hiff⟩ := lookup_of_sep hvl hsep a
  refine ⟨res, hres, fun v => (hiff v).trans ?_⟩
  constructor
  · rintro ⟨r, hr, hc⟩; exact ⟨r, hperm.mem_iff.mp hr, hc⟩
  · rintro ⟨r, hr, hc⟩; exact ⟨r, hperm.mem_iff.mpr hr, hc⟩

/-- the same for *any* list that is a permutation of the added ranges, sorted by start and passing
    the adjacent overlap test — i.e. whatever the (unstable) `sort.Slice` produced. -/
theorem lookup_correct_any_sort {V : Type} {b l : List (Range V)} (hv : ∀ r ∈ b, r.Valid)
    (h : IsBuildOf l b) (a : Ipv6) :
    ∃ res, lookup l a = some res ∧
      ∀ v, res = some v ↔ ∃ r ∈ b, r.start.val ≤ a.val ∧ a.val ≤ r.stop.val ∧ r.v = v := by
  have hvl := valid_of_perm h.perm hv
  obtain ⟨res, hres, hiff⟩ := lookup_of_sep hvl (sep_of_overlapAdj_false l hvl h.noOverlap) a
  refine ⟨res, hres, fun v => (hiff v).trans ?_⟩
  constructor
  · rintro ⟨r, hr, hc⟩; exact ⟨r, h.perm.mem_iff.mp hr, hc⟩
  · rintro ⟨r, hr, hc⟩; exact ⟨r, h.perm.mem_iff.mpr hr, hc⟩

/-- ★ `build_rejects_overlap`: `Build` fails **iff** two of the added ranges have an address in common. -/
theorem build_rejects_overlap {V : Type} {b : List (Range V)} (hv : ∀ r ∈ b, r.Valid) :
    build b = none ↔ ¬ List.Pairwise Disj b := build_eq_none_iff hv

/-- the outcome of the overlap test does not depend on how `sort.Slice` orders equal starts -/
theorem build_any_sort {V : Type} {b l : List (Range V)} (hv : ∀ r ∈ b, r.Valid)
    (hp : l.Perm b) (hs : List.Pairwise StartLe l) :
    overlapAdj l = false ↔ List.Pairwise Disj b := overlapAdj_iff hp hs hv

/-- ★ `mark_of_v4mapped`: an IPv4 client address and its v4-mapped IPv6 form are the same 128-bit
    address, hence get the same group label from every marker. -/
theorem mark_of_v4mapped (m : Marker) (a : UInt32) :
    addr2Ipv6 (.v4 a) = addr2Ipv6 (.v6 0 (0xffff00000000 ||| a.toUInt64)) ∧
    m.mark (.v4 a) = m.mark (.v6 0 (0xffff00000000 ||| a.toUInt64)) := by
  refine ⟨rfl, ?_⟩
  simp [Marker.mark, lookupAddr, Addr.isValid, addr2Ipv6]

/-- without a configured range file every client is in the empty group -/
theorem ipMark_no_marker (a : Addr) : ipMark none a = some [] := rfl

/-- non-vacuity of the hypotheses of `lookup_correct_any_sort` / `build_rejects_overlap`:
    10.0.1.0-10.0.1.0 and 10.0.0.0-10.0.0.255, added in the "wrong" order. -/
example : IsBuildOf
    [⟨1, ⟨0, 0xffff0a000000⟩, ⟨0, 0xffff0a0000ff⟩⟩, ⟨2, ⟨0, 0xffff0a000100⟩, ⟨0, 0xffff0a000100⟩⟩]
    [(⟨2, ⟨0, 0xffff0a000100⟩, ⟨0, 0xffff0a000100⟩⟩ : Range Nat), ⟨1, ⟨0, 0xffff0a000000⟩, ⟨0, 0xffff0a0000ff⟩⟩] :=
  ⟨List.Perm.swap _ _ _, by simp [StartLe, Ipv6.val], by decide⟩
example : ¬ List.Pairwise Disj
    [(⟨2, ⟨0, 5⟩, ⟨0, 9⟩⟩ : Range Nat), ⟨1, ⟨0, 9⟩, ⟨0, 12⟩⟩] := by
  simp [Disj, Ipv6.val]

/-- ★ (component `ipmark`) whole-file statement, for every range file, address parser and client list:
    the loader rejects a file only if a line does not parse, a range has start > end or two ranges
    intersect; otherwise `Mark` never panics and gives every client the label of the unique range
    that contains its address, or none. -/
theorem ipmark_meets_spec (pa : Bytes → Option Addr) (file : Bytes) (addrs : List Addr) :
    Netlist.spec pa file addrs (Netlist.model pa file addrs) = true := marker_meets_spec pa file addrs

/-! non-vacuity: 10.0.0.0-10.0.0.255 "a", 10.0.1.0-10.0.1.0 "b" (a single address), a comment line,
    surrounding blanks. -/
def bs (s : String) : Bytes := s.toList.map (fun c => UInt8.ofNat c.toNat)
def sampleFile : Bytes := bs "10.0.0.0,10.0.0.255,a\n# c\n 10.0.1.0,10.0.1.0,b \n"
/-- the specification accepts the right labels (incl. the v4-mapped form of 10.0.0.255) … -/
example : spec parseAddrGo sampleFile [.v4 0x0a000005, .v4 0x0a000100, .v4 0x0a000101, .v6 0 0xffff0a0000ff]
    (.marks [[97], [98], [], [97]]) = true := by decide
/-- … rejects a wrong label, a missing label, and accepting a file with overlapping ranges … -/
example : spec parseAddrGo sampleFile [.v4 0x0a0000ff] (.marks [[]]) = false := by decide
example : spec parseAddrGo sampleFile [.v4 0x0a000100] (.marks [[97]]) = false := by decide
example : spec parseAddrGo (bs "10.0.0.0,10.0.0.255,a\n10.0.0.255,10.0.1.0,b\n") [.v4 0x0a0000ff]
    (.marks [[97]]) = false := by decide
/-- … and rejecting a good file. -/
example : spec parseAddrGo sampleFile [] (.err .overlap) = false := by decide
example : parseAddrGo (bs "::ffff:10.0.0.1") = some (.v6 0 0xffff0a000001) := by decide
example : parseAddrGo (bs "2001:db8::1") = some (.v6 0x20010db800000000 1) := by decide
example : parseAddrGo (bs "1.2.3.04") = none := by decide

end NetlistPart

/-! ## 3. the memory cache under concurrency -/
open MosVerif.MemCache

section
variable {K V : Type} [Inhabited K] [DecidableEq K]

/-- ★ the pairing invariant, in every reachable state of every interleaving: an entry that is not
    write-locked and holds a value holds the key that value was stored under. -/
theorem data_paired {s : State K V} (h : Reachable s) (e : Nat) (hw : (s.ent e).wr = none)
    (v : V) (hv : (s.ent e).v = some v) : ((s.ent e).k, v) ∈ s.hist :=
  (reachable_inv h).data e hw v hv

/-- ★ `hit_same_key`: for EVERY interleaving of the statements of any number of concurrent
    `Store`, `Get` and `releaseEntry` calls — with a backend that may hand any entry object to
    `Get`, a pool that may hand any entry object to `Store`, and deletion listeners started at
    arbitrary moments — whenever `Get(k)` has returned `v`, `Store` was called with `(k, v)` before. -/
theorem hit_same_key {s : State K V} (h : Reachable s) (t : Nat) (k : K) (v : V)
    (hp : s.pc t = .gDone k (some v)) : (k, v) ∈ s.hist := by
  have := (reachable_inv h).pcok t
  rw [hp] at this
  exact this

/-- `Get` never copies a nil value after the re-check (no torn read between check and copy) -/
theorem no_nil_copy {s : State K V} (h : Reachable s) (t : Nat) : s.pc t ≠ .gBad := by
  intro hp
  have := (reachable_inv h).pcok t
  rw [hp] at this
  exact this

/-- mutual exclusion of the write sections of one entry -/
theorem write_sections_exclusive {s : State K V} (h : Reachable s) {t t' e : Nat}
    (h1 : (s.pc t).wsec = some e) (h2 : (s.pc t').wsec = some e) : t = t' := by
  have i := reachable_inv h
  have a := (i.wr_iff e t).mpr h1
  have b := (i.wr_iff e t').mpr h2
  rw [a] at b
  exact Option.some.inj b

/-- a writer excludes all readers of the same entry -/
theorem no_reader_while_writing {s : State K V} (h : Reachable s) {t t' e : Nat}
    (h1 : (s.pc t).wsec = some e) : (s.pc t').rsec ≠ some e := by
  intro h2
  have i := reachable_inv h
  have a := (i.wr_iff e t).mpr h1
  have b := (i.rd_iff e t').mpr h2
  rw [i.excl e t a] at b
  cases b

/-- data-race freedom on the entry fields `k`, `v`: a statement that writes them never coexists
    with another thread's statement that reads or writes them (this is what justifies treating each
    Go statement as one atomic step). -/
theorem data_race_free {s : State K V} (h : Reachable s) {t t' e : Nat}
    (hw : (s.pc t).writes = some e)
    (ha : (s.pc t').writes = some e ∨ (s.pc t').reads = some e) : t = t' := by
  have hws : (s.pc t).wsec = some e := by
    cases hp : s.pc t <;> simp_all [Pc.writes, Pc.wsec]
  rcases ha with ha | ha
  · apply write_sections_exclusive h hws
    cases hp : s.pc t' <;> simp_all [Pc.writes, Pc.wsec]
  · exfalso
    apply no_reader_while_writing h (t' := t') hws
    cases hp : s.pc t' <;> simp_all [Pc.reads, Pc.rsec]

/-- every step of the faithful layer (otter as a map with a deletion queue whose listener may fire
    repeatedly) is a step of the adversarial layer or leaves the entries and threads untouched -/
theorem faithful_refines {s s' : FState K V} (h : FStep s s') :
    Step s.core s'.core ∨ s'.core = s.core := by
  cases h with
  | «local» c c' b st _ _ _ _ => exact .inl st
  | newFresh c b t k v nx hpc => exact .inl (.storeNew c t k v nx b.next hpc)
  | set c b t e k v hpc => exact .inl (.storeSet c t e k v false hpc)
  | setIfAbsent c b t e k v hpc _ => exact .inl (.storeSet c t e k v true hpc)
  | refused c b t e k v nx hpc => exact .inl (.storeRefused c t e k v nx hpc)
  | lookupHit c b t k n m e hpc _ => exact .inl (.getLookupHit c t k n m e hpc)
  | evict c b k e _ => exact .inr rfl
  | expiredLookup c b k e _ => exact .inr rfl
  | listener c b t e pre post hpc _ => exact .inl (.callRelease c t e hpc)
  | listenerAgain c b t e hpc _ => exact .inl (.callRelease c t e hpc)

theorem faithful_reachable {s : FState K V} (h : FReachable s) : Reachable s.core := by
  induction h with
  | init => exact .init
  | step _ st ih =>
    rcases faithful_refines st with h' | h'
    · exact ih.step h'
    · rw [h']; exact ih

/-- ★ `hit_same_key` on the faithful layer -/
theorem hit_same_key_faithful {s : FState K V} (h : FReachable s) (t : Nat) (k : K) (v : V)
    (hp : s.core.pc t = .gDone k (some v)) : (k, v) ∈ s.core.hist :=
  hit_same_key (faithful_reachable h) t k v hp

/-- non-vacuity: a run in which thread 0 stores (7, 42) into entry 3 and thread 1 then gets it. -/
example : ∃ s : State Nat Nat, Reachable s ∧ s.pc 1 = .gDone 7 (some 42) := by
  let s0 : State Nat Nat := init
  have r0 : Reachable s0 := .init
  have r1 := r0.step (.callStore s0 0 7 42 false rfl)
  have r2 := r1.step (.storeNew _ 0 7 42 false 3 rfl)
  have r3 := r2.step (.storeLock _ 0 3 7 42 false rfl rfl rfl)
  have r4 := r3.step (.storeFillK _ 0 3 7 42 false rfl)
  have r5 := r4.step (.storeFillV _ 0 3 7 42 false rfl)
  have r6 := r5.step (.storeUnlock _ 0 3 7 42 false rfl)
  have r7 := r6.step (.storeSet _ 0 3 7 42 false rfl)
  have r8 := r7.step (.callGet _ 1 7 rfl)
  have r9 := r8.step (.getLookupHit _ 1 7 0 0 3 rfl)
  have r10 := r9.step (.getTryOk _ 1 3 7 0 0 rfl rfl)
  have r11 := r10.step (.getCheck _ 1 3 7 0 0 rfl)
  have r12 := r11.step (.getCopy _ 1 3 7 0 0 rfl)
  have r13 := r12.step (.getUnlockHit _ 1 3 7 42 rfl)
  exact ⟨_, r13, rfl⟩

end

/-! ## 3b. the converse direction: `MemoryCache` on a backend with otter's quirks refines the ideal TTL map -/
section Converse
open MosVerif.QCache
variable {K V : Type} [Inhabited K] [DecidableEq K]

/-- ★ refinement, over ALL sequences of stores (positive and negative, any lifetimes incl. 0), lookups
    (with any glitches), listener calls (also repeated ones for one entry, also for entries whose expired
    node is still in the backend's map), clock steps and clean-ups: the invariant holds and the cache
    agrees with the ideal TTL map now and at every later time. -/
theorem refines_ideal (ops : List (Op K V)) :
    QInv (run QState.empty ops) ∧ Rel (run QState.empty ops) ((Ideal.empty : Ideal K V).run ops) :=
  run_rel qinv_empty rel_empty ops

/-- ★ a live key is never reported as a miss: after any history, a lookup whose glitches (dead node,
    released entry, entry locked by its release — what a lookup racing with replacing stores can meet)
    stay within the retry budget (≤ 7 in all, ≤ 2 dead misses) returns exactly the ideal map's answer;
    and *whatever* the glitches, a hit is the ideal map's answer. -/
theorem live_key_never_misses (ops : List (Op K V)) (k : K) (gl : List Glitch) :
    (Glitch.ok gl = true →
      (get (run QState.empty ops) k gl).1 = ((Ideal.empty : Ideal K V).run ops).get k) ∧
    (∀ v, (get (run QState.empty ops) k gl).1 = some v →
      ((Ideal.empty : Ideal K V).run ops).get k = some v) := by
  obtain ⟨h, r⟩ := refines_ideal (K := K) (V := V) ops
  obtain ⟨_, _, c, d⟩ := get_rel h r k gl
  exact ⟨d, c⟩

/-- ★ a negative store (`SetIfAbsent`) is dropped only if a live entry exists: with no live entry —
    in particular with an expired leftover in the backend — it is stored (3a97998) -/
theorem negative_dropped_only_if_live {s : QState K V} (h : QInv s) (k : K) (v : V) (ttl : Nat)
    (hpos : 0 < ttl) :
    view (store s k v ttl true) k = if (view s k).isSome then view s k else some v := by
  rw [view_store h k v ttl true hpos k]
  simp

/-- ★ `repeat_hits`: once `Store(k, …)` has completed, a lookup hits (positive stores: with the value just
    stored) — expired leftovers, earlier listener calls and in-budget glitches notwithstanding -/
theorem repeat_hits {s : QState K V} (h : QInv s) (k : K) (v : V) (ttl : Nat) (nx : Bool) (hpos : 0 < ttl)
    (gl : List Glitch) (hgl : Glitch.ok gl = true) :
    ((get (store s k v ttl nx) k gl).1).isSome = true ∧
    (nx = false → (get (store s k v ttl nx) k gl).1 = some v) := by
  obtain ⟨h1, _, _⟩ := store_spec h k v ttl nx
  have hv := view_store h k v ttl nx hpos k
  simp only [Glitch.ok, Bool.and_eq_true, decide_eq_true_eq] at hgl
  have hlive : ∀ w, view (store s k v ttl nx) k = some w → (get (store s k v ttl nx) k gl).1 = some w :=
    fun w hw => getLoop_live 8 0 gl _ h1 hw (by omega) (by unfold deadCount; omega)
  constructor
  · cases hc : (nx && (view s k).isSome) with
    | true =>
      simp only [hc, if_true] at hv
      simp only [Bool.and_eq_true] at hc
      obtain ⟨w, hw⟩ := Option.isSome_iff_exists.mp hc.2
      rw [hlive w (hv.trans hw)]; rfl
    | false =>
      simp only [hc, Bool.false_eq_true, if_false, if_true] at hv
      rw [hlive v hv]; rfl
  · intro hnx
    subst hnx
    simp only [Bool.false_and, Bool.false_eq_true, if_false, if_true] at hv
    exact hlive v hv

/-- ★ an entry is released only when no live node references it: in every reachable state a live
    node's entry holds its key and value and no listener call is queued for it … -/
theorem released_only_unreferenced (ops : List (Op K V)) (k : K) (n : Node)
    (hn : (run (QState.empty : QState K V) ops).nodes k = some n)
    (hl : (run (QState.empty : QState K V) ops).now < n.exp) :
    (∃ v, (run (QState.empty : QState K V) ops).ents n.e = (k, some v)) ∧
      n.e ∉ (run (QState.empty : QState K V) ops).pend :=
  let h := (refines_ideal (K := K) (V := V) ops).1
  ⟨h.own k n hn hl, h.notPend k n hn hl⟩

/-- ★ … and nothing leaks: every entry object ever allocated is referenced by the backend's map,
    queued for the listener, or already released. -/
theorem no_entry_leaks (ops : List (Op K V)) (e : Nat)
    (he : e < (run (QState.empty : QState K V) ops).next) :
    Referenced (run (QState.empty : QState K V) ops) e ∨ e ∈ (run (QState.empty : QState K V) ops).pend ∨
      ((run (QState.empty : QState K V) ops).ents e).2 = none :=
  (refines_ideal (K := K) (V := V) ops).1.noLeak e he

end Converse

open MosVerif.QCache in
/-- the retries are needed (f8fe887): the lookup as it was — one backend call, every stale answer a miss —
    misses a live key on a single glitch; the repaired lookup returns the value. -/
example :
    (getNoRetry (store (QState.empty : QState Nat Nat) 7 42 100 false) 7 [.deadMiss]).1 = none ∧
    (get (store (QState.empty : QState Nat Nat) 7 42 100 false) 7 [.deadMiss, .released, .locked]).1 = some 42 := by
  decide

open MosVerif.QCache in
/-- the leftover removal is needed (3a97998): an expired node makes the backend refuse `SetIfAbsent` -/
example : (bSetIfAbsent (store (QState.empty : QState Nat Nat) 7 42 0 false) 7 5 100).1 = false ∧
    (get (store (store (QState.empty : QState Nat Nat) 7 42 0 false) 7 43 100 true) 7 []).1 = some 43 := by
  decide

open MosVerif.QCache in
/-- ★ (component `cachehist`) for every history of stores, lookups and client queries the reference
    model's outputs satisfy the property's executable specification. -/
theorem cachehist_meets_spec (ops : List HOp) : histSpec [] ops (histModel QState.empty ops) = true :=
  hist_meets_spec_gen ops QState.empty [] ⟨qinv_empty, by intro k f h; simp [view, viewAt, QState.empty] at h, by simp⟩

open MosVerif.QCache in
/-- ★ (component `cacheconv`) for every history of the converse-clause component — expired entries,
    negative answers after them, more than 64 writes with the listener calls they trigger, clock steps —
    the reference run (MemoryCache on the quirky backend) produces exactly the outputs of the ideal TTL
    map, which is the specification the implementation's outputs are judged by. -/
theorem cacheconv_meets_spec (cfgMax : Nat) (ops : List COp) :
    convSpec cfgMax ops (convModel cfgMax ⟨QState.empty, [], 0⟩ ops) = true := by
  unfold convSpec
  rw [conv_eq cfgMax ops ⟨QState.empty, [], 0⟩ ⟨Ideal.empty, [], 0⟩ ⟨qinv_empty, rel_empty, rfl, rfl⟩]
  exact beq_self_eq_true _

section
open MosVerif.QCache
example : histSpec [] [.store "k" "a" false, .get "k"] [.stored, .hit "b"] = false := by decide
example : histSpec [] [.store "k" "a" false, .get "K"] [.stored, .hit "a"] = false := by decide
example : histSpec [] [.store "k" "a" false, .get "k"] [.stored, .miss] = false := by decide
example : histSpec [] [.handle "k" "a", .handle "k" "b"] [.upstream "a", .upstream "b"] = false := by decide
example : histSpec [] [.handle "k" "a", .handle "k" "b"] [.upstream "a", .cached "a"] = true := by decide
/-- the converse specification rejects: a negative answer not cached after an expired entry (finding 3),
    a long-lived key lost after the writes (finding 1), an upstream exchange during replacing stores (finding 4) -/
example : convSpec 21600 [.x "0", .h "0" "1" .n, .h "0" "2" .n] [.x, .u "1", .u "2"] = false := by decide
example : convSpec 21600 [.x "0", .h "0" "1" .n, .h "0" "2" .n] [.x, .u "1", .c "1"] = true := by decide
example : convSpec 21600 [.h "1" "1" .p, .w 2, .v] [.u "1", .w, .v 1] = false := by decide
example : convSpec 21600 [.h "0" "1" .p, .r "0" 10 2, .h "0" "2" .p] [.u "1", .up 3, .c "0"] = false := by decide
/-- a negative answer is dropped while a positive one is live, and stored once that one has expired -/
example : convSpec 21600 [.h "0" "1" .t, .s "0" "2" .n, .g "0", .z 2600, .s "0" "3" .n, .g "0"]
    [.u "1", .s, .hit "1", .z, .s, .hit "3"] = true := by decide

/-! the backend's 32-bit arithmetic and the two clamps (3baf9cd, 949de0e) -/

/-- a positive configured size never becomes capacity 0 -/
theorem size_clamp_ok (size : Nat) (h : 0 < size) : 0 < backendCapacity (clampSize size) := by
  unfold backendCapacity clampSize
  split <;> omega

example : backendCapacity 4294967296 = 0 := by decide
example : backendCapacity (clampSize 4294967296) = 4294967295 := by decide

/-- with the lifetime capped at ten years an entry is not born expired: its backend expiry is in the
    future for every configured maximum and every record ttl, while the process is younger than
    2^32 s − ten years (≈ 126 years) -/
theorem ttl_clamp_no_wrap (now maximumTtl ttl : Nat) (hnow : now + tenYears < 2 ^ 32)
    (hpos : 0 < clampTtl maximumTtl ttl) :
    backendExpiry now (clampTtl maximumTtl ttl) = now + clampTtl maximumTtl ttl ∧
    now < backendExpiry now (clampTtl maximumTtl ttl) := by
  have hle : clampTtl maximumTtl ttl ≤ tenYears := by unfold clampTtl; omega
  unfold backendExpiry
  unfold tenYears at *
  omega

/-- without the cap: ttl 2^32−1 one second after start is an expiry in the past -/
example : backendExpiry 1 (2 ^ 32 - 1) = 0 := by decide
end

/-! ## 4. end to end: a hit was stored for the same question and client group -/
open MosVerif.CacheKey

/-- the key `cacheCtl` uses for a question of a client in group `m` -/
def keyOf (q : Question) (m : CacheKey.Bytes) : CacheKey.Bytes :=
  keyLayout { q with name := toLowerName q.name } m

theorem keyOf_is_reqKey (d : CacheKey.Bytes) (q : Question) (m : CacheKey.Bytes) :
    reqKey d q m = some (keyOf q m) := cacheKey_eq ..

/-- ★ Composition of `hit_same_key` and `key_injective`: if every `Store` call was made by
    `cacheCtl.Store` (i.e. with a key built by `cacheKey` from a valid question and a group label),
    then in every interleaving a value returned by `Get` for question `q₂` of group `m₂` was stored
    for a question with the same lower-cased name, class and type, from a client of the same group. -/
theorem hit_same_question {V : Type} {s : State CacheKey.Bytes V} (hr : Reachable s)
    (hcallers : ∀ k v, (k, v) ∈ s.hist → ∃ q m, WfName63 q.name ∧ k = keyOf q m)
    (t : Nat) (q₂ : Question) (m₂ : CacheKey.Bytes) (v : V) (hq₂ : WfName63 q₂.name)
    (hp : s.pc t = .gDone (keyOf q₂ m₂) (some v)) :
    ∃ q₁ m₁, (keyOf q₁ m₁, v) ∈ s.hist ∧ toLowerName q₁.name = toLowerName q₂.name ∧
      q₁.cls = q₂.cls ∧ q₁.typ = q₂.typ ∧ m₁ = m₂ := by
  have hmem := hit_same_key hr t _ v hp
  obtain ⟨q₁, m₁, hq₁, hk⟩ := hcallers _ _ hmem
  refine ⟨q₁, m₁, hk ▸ hmem, ?_⟩
  have : reqKey [] q₁ m₁ = reqKey [] q₂ m₂ := by rw [keyOf_is_reqKey, keyOf_is_reqKey, hk]
  exact key_injective hq₁ hq₂ this

/-- non-vacuity of `hit_same_question`'s caller hypothesis: it holds in the initial state and is
    kept by a `Store` call whose key comes from `keyOf`. -/
example {V : Type} : ∀ k (v : V), (k, v) ∈ (init : State CacheKey.Bytes V).hist →
    ∃ q m, WfName63 q.name ∧ k = keyOf q m := by
  intro k v h; cases h
example : keyOf ⟨[3, 87, 87, 87], 1, 28⟩ [108] = [3, 119, 119, 119, 0, 0, 1, 0, 28, 108] := by decide

/-! ## 5. the value: what is served equals what was stored, up to TTL ageing and ID -/

/-- ★ `value_roundtrip`. Imported assumptions, stated explicitly: `hcodec` — the wire codec round
    trip `unpack (pack m) = m` for uncompressed packing (C02); `hs2` — `s2.Decode ∘ s2.Encode = id`. -/
theorem value_roundtrip {M W C : Type} (pack : M → Option W) (unpack : W → Option M)
    (s2enc : W → C) (s2dec : C → Option W)
    (hcodec : ∀ m w, pack m = some w → unpack w = some m) (hs2 : ∀ w, s2dec (s2enc w) = some w)
    (m : M) (c : C) (h : packCache pack s2enc m = some c) : unpackCache unpack s2dec c = some m := by
  unfold packCache at h
  cases hp : pack m with
  | none => simp [hp] at h
  | some w =>
    simp only [hp, Option.map_some, Option.some.injEq] at h
    subst h
    simp [unpackCache, hs2, hcodec m w hp]

theorem subTTL_eqModTtl (d : Nat) (r : RR) : (subTTL d r).eqModTtl r = true := by
  unfold subTTL
  split
  · simp [RR.eqModTtl]
  · next h => split <;> simp [RR.eqModTtl, h]

theorem eqSection_map_subTTL (d : Nat) : ∀ rs : List RR, eqSection (rs.map (subTTL d)) rs = true
  | [] => rfl
  | r :: rest => by simp [eqSection, subTTL_eqModTtl, eqSection_map_subTTL d rest]

/-- ★ `served_equals_relayed_mod_ttl_id`: under the same two assumptions, what `cacheCtl.Get` returns
    for the stored bytes of `m`, any number of seconds later, has the same flags/rcode, the same
    questions and the same records in every section in the same order as `m`; only TTLs differ. -/
theorem served_equals_relayed_mod_ttl_id {W C : Type} (pack : Msg → Option W) (unpack : W → Option Msg)
    (s2enc : W → C) (s2dec : C → Option W)
    (hcodec : ∀ m w, pack m = some w → unpack w = some m) (hs2 : ∀ w, s2dec (s2enc w) = some w)
    (m : Msg) (c : C) (h : packCache pack s2enc m = some c) (elapsed : Nat) :
    ∃ m', serve unpack s2dec c elapsed = some m' ∧ m'.eqModTtlId m = true ∧ m'.id = m.id := by
  refine ⟨subtractTTL elapsed m, ?_, ?_, rfl⟩
  · simp [serve, value_roundtrip pack unpack s2enc s2dec hcodec hs2 m c h]
  · simp [Msg.eqModTtlId, subtractTTL, eqSection_map_subTTL]

/-- ageing never raises a TTL above `max ttl 1` (the floor is C08's business) -/
theorem subTTL_le (d : Nat) (r : RR) : (subTTL d r).ttl ≤ max r.ttl 1 := by
  unfold subTTL
  split
  · omega
  · split <;> simp <;> omega

example : (subTTL 10 ⟨[], 1, 1, 300, [1, 2, 3, 4]⟩).ttl = 290 := by decide
example : Msg.eqModTtlId ⟨1, 0x8180, [], [⟨[], 1, 1, 5, [1]⟩], [], []⟩ ⟨2, 0x8180, [], [⟨[], 1, 1, 9, [2]⟩], [], []⟩ = false := by decide

/-! ## 6. tie: pinned source facts -/

/-- the statements the models are transcriptions of -/
theorem pins :
    Facts.ck_lowerCall = "dnsmsg.ToLowerName(q.Name)" ∧
    Facts.ck_storeKey = "k := cacheKey(q, mark)" ∧
    Facts.ck_getKey = "key := cacheKey(q, ipMark)" ∧
    Facts.ck_storeMark = "mark := c.ipMark(clientAddr)" ∧
    Facts.ck_getMark = "ipMark := c.ipMark(rc.RemoteAddr.Addr())" := by
  (repeat' apply And.intro) <;> rfl

theorem pins_memcache :
    Facts.mc_tryRLock = "!e.l.TryRLock()" ∧
    Facts.mc_recheck = "e.v == nil || e.k != string(k)" ∧
    Facts.mc_getBody = "{ c.getTotal.Inc() misses := 0 for retry := 0; retry < 8; retry++ { e, ok := c.backend.Get(utils.Bytes2StrUnsafe(k)) if !ok { if misses++; misses < 3 { continue } break } if !e.l.TryRLock() { continue } if e.v == nil || e.k != string(k) { e.l.RUnlock() continue } v = pool.CopyBuf(e.v) storedTime = e.storedTime expireTime = e.expireTime e.l.RUnlock() c.hitTotal.Inc() return v, storedTime, expireTime } return nil, time.Time{}, time.Time{} }" ∧
    Facts.mc_storeBody = "{ ks := string(k) vCopy := pool.CopyBuf(v) e := newCacheEntry() e.l.Lock() e.storedTime = storedTime e.expireTime = expireTime e.k = ks e.v = vCopy e.l.Unlock() ttl := time.Until(expireTime) if setNX { l := &c.storeLocks[maphash.String(storeLockSeed, ks)%uint64(len(c.storeLocks))] l.Lock() defer l.Unlock() ok := c.backend.SetIfAbsent(ks, e, ttl) if !ok { if _, alive := c.backend.Get(ks); !alive { c.backend.Delete(ks) ok = c.backend.SetIfAbsent(ks, e, ttl) } } if !ok { releaseEntry(e) } } else { l := &c.storeLocks[maphash.String(storeLockSeed, ks)%uint64(len(c.storeLocks))] l.Lock() defer l.Unlock() if !c.backend.Set(ks, e, ttl) { releaseEntry(e) } } }" ∧
    Facts.mc_setIfAbsent = "ok := c.backend.SetIfAbsent(ks, e, ttl)" ∧
    Facts.mc_leftover = "!alive" ∧
    Facts.mc_releaseBody = "{ e.l.Lock() e.storedTime = time.Time{} e.expireTime = time.Time{} e.k = \"\" if e.v != nil { pool.ReleaseBuf(e.v) e.v = nil } e.l.Unlock() }" ∧
    Facts.mc_newEntry = "{ return new(cacheEntry) }" ∧
    Facts.mc_listener = "releaseEntry(value)" ∧
    Facts.cv_pack = "n, err := m.Pack(b, false, 0)" ∧
    Facts.cv_encode = "compressedMsgBytes := s2.Encode(compressBuf, b)" ∧
    Facts.cv_decode = "decoded, err := s2.Decode(decodeBuf, m)" ∧
    Facts.cv_unpack = "return dnsmsg.UnpackMsg(decoded)" := by
  (repeat' apply And.intro) <;> rfl

/-- the five repairs the converse direction rests on: no entry recycling + idempotent release (fb0d3a6,
    `mc_newEntry`, `mc_releaseBody`), leftover removal under the stripe lock and release of a refused
    entry (3a97998, `mc_storeBody`, `mc_leftover`), lookup retries (f8fe887, `mc_getBody`; the budgets `retry < 8`,
    `misses < 3` are tied by translation: `Netlist.c07_getBudget_translated`, `c07_getMisses_translated`), the size
    clamp (3baf9cd: `Netlist.c07_clampSize_translated`) and the lifetime cap (949de0e; the constant is in
    nanoseconds; limit and cap by translation: `Netlist.c07_clampTtl_translated`). The comparisons of
    `internal/netlist` are tied by `Netlist.c07_ipv6cmp_translated`, `c07_contains_translated`,
    `c07_builderAdd_translated`, `c07_overlapAdj_translated`, `c07_lookupNone_translated`. -/
theorem pins_repairs :
    Facts.mc_newEntry = "{ return new(cacheEntry) }" ∧
    Facts.mc_leftover = "!alive" ∧
    Facts.mc_builder = "builder, err := otter.NewBuilder[string, *cacheEntry](size)" ∧
    Facts.cc_ttlLimit = 1000000000 * MosVerif.QCache.tenYears := by
  refine ⟨rfl, rfl, rfl, by decide⟩

theorem pins_netlist :
    Facts.nl_overlapLoop = "i < len(rs)-1" ∧
    Facts.nl_less = "return rs[i].start.cmp(rs[j].start) < 0" ∧
    Facts.nl_search = "return ip.cmp(l.e[i].start) < 0" ∧
    Facts.nl_pred = "return l.e[i-1].contains(ip)" ∧
    Facts.nl_addr2Ipv6 = "{ b := addr.As16() return Ipv6{ h: binary.BigEndian.Uint64(b[:8]), l: binary.BigEndian.Uint64(b[8:]), } }" ∧
    Facts.im_comment = "t, _, _ = strings.Cut(t, \"#\")" ∧
    Facts.im_trim = "t = strings.TrimSpace(t)" ∧
    Facts.im_add = "ok := listBuilder.Add(start, end, idx)" ∧
    Facts.im_assign = "idx := assignIdx(markStr)" ∧
    Facts.im_markIdx = "return m.s[idx]" ∧
    Facts.im_newIdx = "idx = len(labels) - 1" ∧
    Facts.im_nilMarker = "c.ipMarker == nil || !addr.IsValid()" ∧
    Facts.im_markInvalid = "!addr.IsValid()" ∧
    Facts.nl_lookupAddrInvalid = "!addr.IsValid()" ∧
    Facts.nl_addInvalid = "!start.IsValid() || !end.IsValid()" := by
  (repeat' apply And.intro) <;> rfl

end MosVerif.C07
