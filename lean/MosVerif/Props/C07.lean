/-
  C07 — Cached answers go only to the same question and client group, unchanged.

  Models: `Model/CacheKey` (cacheKey + ToLowerName), `Model/Netlist` (netlist + range file loader +
  ipMarker.Mark), `Model/MemCache` (the concurrent memory cache with explicit entry locks and an
  adversarial backend/pool, the sequential otter-as-map layer, the value codec).
  Helper lemmas: `Lemmas/CacheKeyLemmas`, `Lemmas/NetlistLemmas`, `Lemmas/MarkerLemmas`,
  `Lemmas/MemCacheLemmas`, `Lemmas/MemCacheSeqLemmas`.
-/
import MosVerif.Lemmas.CacheKeyLemmas
import MosVerif.Lemmas.MarkerLemmas
import MosVerif.Lemmas.MemCacheSeqLemmas
import MosVerif.Generated.Facts
namespace MosVerif.C07

/-! ## 1. the cache key -/
section CacheKeyPart
open MosVerif.CacheKey

/-- `cacheKey` never panics and writes every octet of its buffer: the result is exactly
    `name ‖ 0 ‖ class₂ ‖ type₂ ‖ mark` whatever the recycled buffer held. -/
theorem key_layout (dirty : Bytes) (q : Question) (mark : Bytes) :
    cacheKey dirty q mark = some (keyLayout q mark) := cacheKey_eq dirty q mark

/-- ★ the key does not depend on the previous content of the pooled buffer
    (false before the D7 fix: the class octets were never written). -/
theorem key_deterministic (d₁ d₂ : Bytes) (q : Question) (m : Bytes) :
    cacheKey d₁ q m = cacheKey d₂ q m := by
  rw [cacheKey_eq, cacheKey_eq]

/-- the same for the key as computed on the request path (after `ToLowerName`) -/
theorem reqKey_deterministic (d₁ d₂ : Bytes) (q : Question) (m : Bytes) :
    reqKey d₁ q m = reqKey d₂ q m := key_deterministic ..

/-- ★ equal keys ⇒ equal name octets, class, type and group label — for well-formed wire names
    (sequences of non-empty labels); no condition on class, type or label (false before the D21
    fix: without the terminator `name‖class` can re-parse). -/
theorem key_injective_raw {d₁ d₂ : Bytes} {q₁ q₂ : Question} {m₁ m₂ : Bytes}
    (h₁ : WfName q₁.name) (h₂ : WfName q₂.name)
    (h : cacheKey d₁ q₁ m₁ = cacheKey d₂ q₂ m₂) : q₁ = q₂ ∧ m₁ = m₂ := by
  rw [cacheKey_eq, cacheKey_eq] at h
  exact keyLayout_inj h₁ h₂ (Option.some.inj h)

/-- ★ on the request path: equal keys ⇒ the lower-cased names, the classes, the types and the
    client groups are equal (any two valid wire names, any class/type/label, any buffers). -/
theorem key_injective {d₁ d₂ : Bytes} {q₁ q₂ : Question} {m₁ m₂ : Bytes}
    (h₁ : WfName63 q₁.name) (h₂ : WfName63 q₂.name)
    (h : reqKey d₁ q₁ m₁ = reqKey d₂ q₂ m₂) :
    toLowerName q₁.name = toLowerName q₂.name ∧ q₁.cls = q₂.cls ∧ q₁.typ = q₂.typ ∧ m₁ = m₂ := by
  obtain ⟨hq, hm⟩ := key_injective_raw (q₁ := { q₁ with name := toLowerName q₁.name })
    (q₂ := { q₂ with name := toLowerName q₂.name }) (wf_toLowerName h₁) (wf_toLowerName h₂) h
  simp only [Question.mk.injEq] at hq
  exact ⟨hq.1, hq.2.1, hq.2.2, hm⟩

/-- `ToLowerName` on a valid name of at most 254 octets is plain ASCII lower-casing of every octet
    (length octets are below 'A'), so "same lower-cased name" is "same name, ASCII-case-insensitively". -/
theorem lower_is_casefold {n : Bytes} (h : WfName63 n) (hl : n.length ≤ 254) :
    toLowerName n = n.map lowerByte := toLowerName_eq_map h hl

/-- ★ both directions: two requests get the same key **iff** they agree on the name
    (case-insensitively), the class, the type and the client group. -/
theorem key_eq_iff {d₁ d₂ : Bytes} {q₁ q₂ : Question} {m₁ m₂ : Bytes}
    (h₁ : WfName63 q₁.name) (h₂ : WfName63 q₂.name) (l₁ : q₁.name.length ≤ 254) (l₂ : q₂.name.length ≤ 254) :
    reqKey d₁ q₁ m₁ = reqKey d₂ q₂ m₂ ↔
      (q₁.name.map lowerByte = q₂.name.map lowerByte ∧ q₁.cls = q₂.cls ∧ q₁.typ = q₂.typ ∧ m₁ = m₂) := by
  constructor
  · intro h
    have := key_injective h₁ h₂ h
    rwa [lower_is_casefold h₁ l₁, lower_is_casefold h₂ l₂] at this
  · rintro ⟨hn, hc, ht, hm⟩
    unfold reqKey
    rw [cacheKey_eq, cacheKey_eq, lower_is_casefold h₁ l₁, lower_is_casefold h₂ l₂, hn, hc, ht, hm]

theorem beq_of_iff {a b : Bool} (h : a = true ↔ b = true) : (a == b) = true := by
  cases a <;> cases b <;> simp_all

/-- ★ (component `cachekey`) for every pair of queries with valid names, both modes and every dirt
    byte, the model's three keys satisfy the executable specification. -/
theorem cachekey_meets_spec (c : Case)
    (h₁ : WfName63 c.q1.name) (h₂ : WfName63 c.q2.name)
    (l₁ : c.q1.name.length ≤ 254) (l₂ : c.q2.name.length ≤ 254) :
    ∃ o, model c = some o ∧ spec c o = true := by
  cases hl : c.lower with
  | false =>
    refine ⟨⟨keyLayout c.q1 c.m1, keyLayout c.q1 c.m1, keyLayout c.q2 c.m2⟩, ?_, ?_⟩
    · simp [model, keyFor, hl, cacheKey_eq]
    · simp only [spec, sameTuple, hl, beq_self_eq_true, Bool.true_and, Bool.false_eq_true, if_false]
      apply beq_of_iff
      simp only [beq_iff_eq, Bool.and_eq_true]
      constructor
      · intro he
        obtain ⟨hq, hm⟩ := keyLayout_inj h₁.wf h₂.wf he
        simp [hq, hm]
      · rintro ⟨⟨⟨a, b⟩, c'⟩, d⟩
        have : c.q1 = c.q2 := by
          cases hq1 : c.q1; cases hq2 : c.q2
          simp_all
        rw [this, d]
  | true =>
    refine ⟨⟨keyLayout { c.q1 with name := toLowerName c.q1.name } c.m1,
             keyLayout { c.q1 with name := toLowerName c.q1.name } c.m1,
             keyLayout { c.q2 with name := toLowerName c.q2.name } c.m2⟩, ?_, ?_⟩
    · simp [model, keyFor, hl, reqKey, cacheKey_eq]
    · simp only [spec, sameTuple, hl, beq_self_eq_true, Bool.true_and, if_true]
      have hiff := key_eq_iff (d₁ := []) (d₂ := []) (m₁ := c.m1) (m₂ := c.m2) h₁ h₂ l₁ l₂
      unfold reqKey at hiff
      rw [cacheKey_eq, cacheKey_eq] at hiff
      simp only [Option.some.injEq] at hiff
      apply beq_of_iff
      simp only [beq_iff_eq, Bool.and_eq_true]
      rw [hiff]
      constructor
      · rintro ⟨a, b, c', d⟩; exact ⟨⟨⟨a, b⟩, c'⟩, d⟩
      · rintro ⟨⟨⟨a, b⟩, c'⟩, d⟩; exact ⟨a, b, c', d⟩

/-- the driver's validity check implies the hypotheses above -/
theorem driver_check_sound (n : Bytes) (h : wfNameB 255 n = true) : WfName63 n := wfNameB_sound 255 n h

/-! non-vacuity. `www.a` = `03 77 77 77 01 61`; the D21 witness: before the terminator was added,
    (`\x01a`, class 0x0161, type 1, mark `\x00\x01m`) and (`\x01a\x01a`, class 1, type 1, mark `m`)
    had the same key. -/
example : WfName63 [1, 97] := .cons 1 [97] [] (by decide) (by decide) rfl .nil
example : WfName63 [1, 97, 1, 97] :=
  .cons 1 [97] [1, 97] (by decide) (by decide) rfl (.cons 1 [97] [] (by decide) (by decide) rfl .nil)
example : cacheKey [0xee, 0xee, 0xee, 0xee, 0xee, 0xee, 0xee, 0xee, 0xee, 0xee] ⟨[1, 97], 0x0161, 1⟩ [0, 1, 109]
    = some [1, 97, 0, 1, 97, 0, 1, 0, 1, 109] := by decide
example : cacheKey [] ⟨[1, 97, 1, 97], 1, 1⟩ [109] = some [1, 97, 1, 97, 0, 0, 1, 0, 1, 109] := by decide
/-- the specification rejects the D7 behaviour (class octets left as found in the buffer) … -/
example : spec ⟨⟨[1, 97], 1, 1⟩, [], ⟨[1, 97], 3, 1⟩, [], false, 0xee⟩
    ⟨[1, 97, 0, 0xee, 0xee, 0, 1], [1, 97, 0, 0x11, 0x11, 0, 1], [1, 97, 0, 0xee, 0xee, 0, 1]⟩ = false := by decide
/-- … and the D21 behaviour (no terminator: two different tuples, one key). -/
example : spec ⟨⟨[1, 97], 0x0161, 1⟩, [0, 1, 109], ⟨[1, 97, 1, 97], 1, 1⟩, [109], false, 0⟩
    ⟨[1, 97, 1, 97, 0, 1, 0, 1, 109], [1, 97, 1, 97, 0, 1, 0, 1, 109], [1, 97, 1, 97, 0, 1, 0, 1, 109]⟩ = false := by decide
example : toLowerName [3, 87, 119, 87, 1, 65] = [3, 119, 119, 119, 1, 97] := by decide

end CacheKeyPart

/-! ## 2. the client group: netlist + range file -/
section NetlistPart
open MosVerif.Netlist

/-- `Add` only ever appends ranges with `start ≤ end` -/
theorem add_valid {V : Type} {b b' : List (Range V)} {s e : Addr} {v : V}
    (hb : ∀ r ∈ b, r.Valid) (h : builderAdd b s e v = some b') : ∀ r ∈ b', r.Valid := by
  unfold builderAdd at h
  split at h
  · cases h
  · simp only at h
    split at h
    · cases h
    · next hc =>
      simp only [Option.some.injEq] at h
      subst h
      intro r hr
      rcases List.mem_append.mp hr with hr | hr
      · exact hb r hr
      · simp only [List.mem_singleton] at hr
        subst hr
        have : ¬ (addr2Ipv6 e).val < (addr2Ipv6 s).val := fun h' => hc ((cmp_gt_iff _ _).mpr h')
        unfold Range.Valid
        simp only
        omega

/-- ★ `lookup_correct`: if `Build` succeeds on ranges added through `Add`, `Lookup` never panics
    and returns `v` exactly when some added range with value `v` contains the address
    (addresses compared as 128-bit numbers). -/
theorem lookup_correct {V : Type} {b l : List (Range V)} (hv : ∀ r ∈ b, r.Valid)
    (h : build b = some l) (a : Ipv6) :
    ∃ res, lookup l a = some res ∧
      ∀ v, res = some v ↔ ∃ r ∈ b, r.start.val ≤ a.val ∧ a.val ≤ r.stop.val ∧ r.v = v := by
  obtain ⟨hsep, hvl, hperm⟩ := build_sep hv h
  obtain ⟨res, hres, hiff⟩ := lookup_of_sep hvl hsep a
  refine ⟨res, hres, fun v => (hiff v).trans ?_⟩
  constructor
  · rintro ⟨r, hr, hc⟩; exact ⟨r, hperm.mem_iff.mp hr, hc⟩
  · rintro ⟨r, hr, hc⟩; exact ⟨r, hperm.mem_iff.mpr hr, hc⟩

/-- the same for *any* list that is a permutation of the added ranges, sorted by start and passing
    the adjacent overlap test — i.e. whatever the (unstable) `sort.Slice` produced. -/
theorem lookup_correct_any_sort {V : Type} {b l : List (Range V)} (hv : ∀ r ∈ b, r.Valid)
    (h : IsBuildOf l b) (a : Ipv6) :
    ∃ res, lookup l a = some res ∧
      ∀ v, res = some v ↔ ∃ r ∈ b, r.start.val ≤ a.val ∧ a.val ≤ r.stop.val ∧ r.v = v := by
  have hvl := valid_of_perm h.perm hv
  obtain ⟨res, hres, hiff⟩ := lookup_of_sep hvl (sep_of_overlapAdj_false l hvl h.noOverlap) a
  refine ⟨res, hres, fun v => (hiff v).trans ?_⟩
  constructor
  · rintro ⟨r, hr, hc⟩; exact ⟨r, h.perm.mem_iff.mp hr, hc⟩
  · rintro ⟨r, hr, hc⟩; exact ⟨r, h.perm.mem_iff.mpr hr, hc⟩

/-- ★ `build_rejects_overlap`: `Build` fails **iff** two of the added ranges have an address in common. -/
theorem build_rejects_overlap {V : Type} {b : List (Range V)} (hv : ∀ r ∈ b, r.Valid) :
    build b = none ↔ ¬ List.Pairwise Disj b := build_eq_none_iff hv

/-- the outcome of the overlap test does not depend on how `sort.Slice` orders equal starts -/
theorem build_any_sort {V : Type} {b l : List (Range V)} (hv : ∀ r ∈ b, r.Valid)
    (hp : l.Perm b) (hs : List.Pairwise StartLe l) :
    overlapAdj l = false ↔ List.Pairwise Disj b := overlapAdj_iff hp hs hv

/-- ★ `mark_of_v4mapped`: an IPv4 client address and its v4-mapped IPv6 form are the same 128-bit
    address, hence get the same group label from every marker. -/
theorem mark_of_v4mapped (m : Marker) (a : UInt32) :
    addr2Ipv6 (.v4 a) = addr2Ipv6 (.v6 0 (0xffff00000000 ||| a.toUInt64)) ∧
    m.mark (.v4 a) = m.mark (.v6 0 (0xffff00000000 ||| a.toUInt64)) := by
  refine ⟨rfl, ?_⟩
  simp [Marker.mark, lookupAddr, Addr.isValid, addr2Ipv6]

/-- without a configured range file every client is in the empty group -/
theorem ipMark_no_marker (a : Addr) : ipMark none a = some [] := rfl

/-- non-vacuity of the hypotheses of `lookup_correct_any_sort` / `build_rejects_overlap`:
    10.0.1.0-10.0.1.0 and 10.0.0.0-10.0.0.255, added in the "wrong" order. -/
example : IsBuildOf
    [⟨1, ⟨0, 0xffff0a000000⟩, ⟨0, 0xffff0a0000ff⟩⟩, ⟨2, ⟨0, 0xffff0a000100⟩, ⟨0, 0xffff0a000100⟩⟩]
    [(⟨2, ⟨0, 0xffff0a000100⟩, ⟨0, 0xffff0a000100⟩⟩ : Range Nat), ⟨1, ⟨0, 0xffff0a000000⟩, ⟨0, 0xffff0a0000ff⟩⟩] :=
  ⟨List.Perm.swap _ _ _, by simp [StartLe, Ipv6.val], by decide⟩
example : ¬ List.Pairwise Disj
    [(⟨2, ⟨0, 5⟩, ⟨0, 9⟩⟩ : Range Nat), ⟨1, ⟨0, 9⟩, ⟨0, 12⟩⟩] := by
  simp [Disj, Ipv6.val]

/-- ★ (component `ipmark`) whole-file statement, for every range file, address parser and client list:
    the loader rejects a file only if a line does not parse, a range has start > end or two ranges
    intersect; otherwise `Mark` never panics and gives every client the label of the unique range
    that contains its address, or none. -/
theorem ipmark_meets_spec (pa : Bytes → Option Addr) (file : Bytes) (addrs : List Addr) :
    Netlist.spec pa file addrs (Netlist.model pa file addrs) = true := marker_meets_spec pa file addrs

/-! non-vacuity: 10.0.0.0-10.0.0.255 "a", 10.0.1.0-10.0.1.0 "b" (a single address), a comment line,
    surrounding blanks. -/
def bs (s : String) : Bytes := s.toList.map (fun c => UInt8.ofNat c.toNat)
def sampleFile : Bytes := bs "10.0.0.0,10.0.0.255,a\n# c\n 10.0.1.0,10.0.1.0,b \n"
/-- the specification accepts the right labels (incl. the v4-mapped form of 10.0.0.255) … -/
example : spec parseAddrGo sampleFile [.v4 0x0a000005, .v4 0x0a000100, .v4 0x0a000101, .v6 0 0xffff0a0000ff]
    (.marks [[97], [98], [], [97]]) = true := by decide
/-- … rejects a wrong label, a missing label, and accepting a file with overlapping ranges … -/
example : spec parseAddrGo sampleFile [.v4 0x0a0000ff] (.marks [[]]) = false := by decide
example : spec parseAddrGo sampleFile [.v4 0x0a000100] (.marks [[97]]) = false := by decide
example : spec parseAddrGo (bs "10.0.0.0,10.0.0.255,a\n10.0.0.255,10.0.1.0,b\n") [.v4 0x0a0000ff]
    (.marks [[97]]) = false := by decide
/-- … and rejecting a good file. -/
example : spec parseAddrGo sampleFile [] (.err .overlap) = false := by decide
example : parseAddrGo (bs "::ffff:10.0.0.1") = some (.v6 0 0xffff0a000001) := by decide
example : parseAddrGo (bs "2001:db8::1") = some (.v6 0x20010db800000000 1) := by decide
example : parseAddrGo (bs "1.2.3.04") = none := by decide

end NetlistPart

/-! ## 3. the memory cache under concurrency -/
open MosVerif.MemCache

section
variable {K V : Type} [Inhabited K] [DecidableEq K]

/-- ★ the pairing invariant, in every reachable state of every interleaving: an entry that is not
    write-locked and holds a value holds the key that value was stored under. -/
theorem data_paired {s : State K V} (h : Reachable s) (e : Nat) (hw : (s.ent e).wr = none)
    (v : V) (hv : (s.ent e).v = some v) : ((s.ent e).k, v) ∈ s.hist :=
  (reachable_inv h).data e hw v hv

/-- ★ `hit_same_key`: for EVERY interleaving of the statements of any number of concurrent
    `Store`, `Get` and `releaseEntry` calls — with a backend that may hand any entry object to
    `Get`, a pool that may hand any entry object to `Store`, and deletion listeners started at
    arbitrary moments — whenever `Get(k)` has returned `v`, `Store` was called with `(k, v)` before. -/
theorem hit_same_key {s : State K V} (h : Reachable s) (t : Nat) (k : K) (v : V)
    (hp : s.pc t = .gDone k (some v)) : (k, v) ∈ s.hist := by
  have := (reachable_inv h).pcok t
  rw [hp] at this
  exact this

/-- `Get` never copies a nil value after the re-check (no torn read between check and copy) -/
theorem no_nil_copy {s : State K V} (h : Reachable s) (t : Nat) : s.pc t ≠ .gBad := by
  intro hp
  have := (reachable_inv h).pcok t
  rw [hp] at this
  exact this

/-- mutual exclusion of the write sections of one entry -/
theorem write_sections_exclusive {s : State K V} (h : Reachable s) {t t' e : Nat}
    (h1 : (s.pc t).wsec = some e) (h2 : (s.pc t').wsec = some e) : t = t' := by
  have i := reachable_inv h
  have a := (i.wr_iff e t).mpr h1
  have b := (i.wr_iff e t').mpr h2
  rw [a] at b
  exact Option.some.inj b

/-- a writer excludes all readers of the same entry -/
theorem no_reader_while_writing {s : State K V} (h : Reachable s) {t t' e : Nat}
    (h1 : (s.pc t).wsec = some e) : (s.pc t').rsec ≠ some e := by
  intro h2
  have i := reachable_inv h
  have a := (i.wr_iff e t).mpr h1
  have b := (i.rd_iff e t').mpr h2
  rw [i.excl e t a] at b
  cases b

/-- data-race freedom on the entry fields `k`, `v`: a statement that writes them never coexists
    with another thread's statement that reads or writes them (this is what justifies treating each
    Go statement as one atomic step). -/
theorem data_race_free {s : State K V} (h : Reachable s) {t t' e : Nat}
    (hw : (s.pc t).writes = some e)
    (ha : (s.pc t').writes = some e ∨ (s.pc t').reads = some e) : t = t' := by
  have hws : (s.pc t).wsec = some e := by
    cases hp : s.pc t <;> simp_all [Pc.writes, Pc.wsec]
  rcases ha with ha | ha
  · apply write_sections_exclusive h hws
    cases hp : s.pc t' <;> simp_all [Pc.writes, Pc.wsec]
  · exfalso
    apply no_reader_while_writing h (t' := t') hws
    cases hp : s.pc t' <;> simp_all [Pc.reads, Pc.rsec]

/-- every step of the faithful layer (otter as a map with a deletion queue, `sync.Pool` as a list)
    is a step of the adversarial layer or leaves the entries and threads untouched -/
theorem faithful_refines {s s' : FState K V} (h : FStep s s') :
    Step s.core s'.core ∨ s'.core = s.core := by
  cases h with
  | «local» c c' b st _ _ _ => exact .inl st
  | newPooled c b t k v nx e pre post hpc _ => exact .inl (.storeNew c t k v nx e hpc)
  | newFresh c b t k v nx hpc => exact .inl (.storeNew c t k v nx b.next hpc)
  | set c b t e k v hpc => exact .inl (.storeSet c t e k v false hpc)
  | setIfAbsent c b t e k v hpc => exact .inl (.storeSet c t e k v true hpc)
  | lookupHit c b t k e hpc _ => exact .inl (.getLookupHit c t k e hpc)
  | evict c b k e _ => exact .inr rfl
  | listener c b t e pre post hpc _ => exact .inl (.callRelease c t e hpc)
  | put c b t e hpc => exact .inl (.relPut c t e hpc)
  | poolDrop c b pre post e _ => exact .inr rfl

theorem faithful_reachable {s : FState K V} (h : FReachable s) : Reachable s.core := by
  induction h with
  | init => exact .init
  | step _ st ih =>
    rcases faithful_refines st with h' | h'
    · exact ih.step h'
    · rw [h']; exact ih

/-- ★ `hit_same_key` on the faithful layer -/
theorem hit_same_key_faithful {s : FState K V} (h : FReachable s) (t : Nat) (k : K) (v : V)
    (hp : s.core.pc t = .gDone k (some v)) : (k, v) ∈ s.core.hist :=
  hit_same_key (faithful_reachable h) t k v hp

/-- non-vacuity: a run in which thread 0 stores (7, 42) into entry 3 and thread 1 then gets it. -/
example : ∃ s : State Nat Nat, Reachable s ∧ s.pc 1 = .gDone 7 (some 42) := by
  let s0 : State Nat Nat := init
  have r0 : Reachable s0 := .init
  have r1 := r0.step (.callStore s0 0 7 42 false rfl)
  have r2 := r1.step (.storeNew _ 0 7 42 false 3 rfl)
  have r3 := r2.step (.storeLock _ 0 3 7 42 false rfl rfl rfl)
  have r4 := r3.step (.storeFillK _ 0 3 7 42 false rfl)
  have r5 := r4.step (.storeFillV _ 0 3 7 42 false rfl)
  have r6 := r5.step (.storeUnlock _ 0 3 7 42 false rfl)
  have r7 := r6.step (.storeSet _ 0 3 7 42 false rfl)
  have r8 := r7.step (.callGet _ 1 7 rfl)
  have r9 := r8.step (.getLookupHit _ 1 7 3 rfl)
  have r10 := r9.step (.getTryOk _ 1 3 7 rfl rfl)
  have r11 := r10.step (.getCheck _ 1 3 7 rfl)
  have r12 := r11.step (.getCopy _ 1 3 7 rfl)
  have r13 := r12.step (.getUnlockHit _ 1 3 7 42 rfl)
  exact ⟨_, r13, rfl⟩

/-- ★ the sequential layer (otter as a map + entry pool) refines a plain finite map: recycling is
    invisible, one key's operations never affect another key. -/
theorem seq_refines_map {s : Seq K V} (h : SeqInv s) (ops : List (Op K V)) :
    SeqInv (s.run ops) ∧ ∀ k, (s.run ops).get k = (ops.foldl aapply s.get) k := run_spec h ops

/-- ★ `repeat_hits` (the converse direction): after `Store(k, …)` has completed, `Get(k)` hits as long
    as the backend has not evicted or expired `k` (ample capacity, lifetime left), whatever happens
    to other keys in between. -/
theorem repeat_hits {s : Seq K V} (h : SeqInv s) (k : K) (v : V) (nx : Bool) (ops : List (Op K V))
    (hop : ∀ op ∈ ops, ∀ k', op = .evict k' → k' ≠ k) :
    (((s.store k v nx).run ops).get k).isSome = true := MemCache.repeat_hits h k v nx ops hop

end

/-- ★ (component `cachehist`) for every history of stores, lookups and client queries the reference
    model's outputs satisfy the property's executable specification. -/
theorem cachehist_meets_spec (ops : List HOp) : histSpec [] ops (histModel Seq.empty ops) = true :=
  hist_meets_spec_gen ops Seq.empty [] ⟨seqInv_empty, by intro k f h; simp [Seq.get, Seq.empty] at h, by simp⟩

example : histSpec [] [.store "k" "a" false, .get "k"] [.stored, .hit "b"] = false := by decide
example : histSpec [] [.store "k" "a" false, .get "K"] [.stored, .hit "a"] = false := by decide
example : histSpec [] [.store "k" "a" false, .get "k"] [.stored, .miss] = false := by decide
example : histSpec [] [.handle "k" "a", .handle "k" "b"] [.upstream "a", .upstream "b"] = false := by decide
example : histSpec [] [.handle "k" "a", .handle "k" "b"] [.upstream "a", .cached "a"] = true := by decide

/-! ## 4. end to end: a hit was stored for the same question and client group -/
open MosVerif.CacheKey

/-- the key `cacheCtl` uses for a question of a client in group `m` -/
def keyOf (q : Question) (m : CacheKey.Bytes) : CacheKey.Bytes :=
  keyLayout { q with name := toLowerName q.name } m

theorem keyOf_is_reqKey (d : CacheKey.Bytes) (q : Question) (m : CacheKey.Bytes) :
    reqKey d q m = some (keyOf q m) := cacheKey_eq ..

/-- ★ Composition of `hit_same_key` and `key_injective`: if every `Store` call was made by
    `cacheCtl.Store` (i.e. with a key built by `cacheKey` from a valid question and a group label),
    then in every interleaving a value returned by `Get` for question `q₂` of group `m₂` was stored
    for a question with the same lower-cased name, class and type, from a client of the same group. -/
theorem hit_same_question {V : Type} {s : State CacheKey.Bytes V} (hr : Reachable s)
    (hcallers : ∀ k v, (k, v) ∈ s.hist → ∃ q m, WfName63 q.name ∧ k = keyOf q m)
    (t : Nat) (q₂ : Question) (m₂ : CacheKey.Bytes) (v : V) (hq₂ : WfName63 q₂.name)
    (hp : s.pc t = .gDone (keyOf q₂ m₂) (some v)) :
    ∃ q₁ m₁, (keyOf q₁ m₁, v) ∈ s.hist ∧ toLowerName q₁.name = toLowerName q₂.name ∧
      q₁.cls = q₂.cls ∧ q₁.typ = q₂.typ ∧ m₁ = m₂ := by
  have hmem := hit_same_key hr t _ v hp
  obtain ⟨q₁, m₁, hq₁, hk⟩ := hcallers _ _ hmem
  refine ⟨q₁, m₁, hk ▸ hmem, ?_⟩
  have : reqKey [] q₁ m₁ = reqKey [] q₂ m₂ := by rw [keyOf_is_reqKey, keyOf_is_reqKey, hk]
  exact key_injective hq₁ hq₂ this

/-- non-vacuity of `hit_same_question`'s caller hypothesis: it holds in the initial state and is
    kept by a `Store` call whose key comes from `keyOf`. -/
example {V : Type} : ∀ k (v : V), (k, v) ∈ (init : State CacheKey.Bytes V).hist →
    ∃ q m, WfName63 q.name ∧ k = keyOf q m := by
  intro k v h; cases h
example : keyOf ⟨[3, 87, 87, 87], 1, 28⟩ [108] = [3, 119, 119, 119, 0, 0, 1, 0, 28, 108] := by decide

/-! ## 5. the value: what is served equals what was stored, up to TTL ageing and ID -/

/-- ★ `value_roundtrip`. Imported assumptions, stated explicitly: `hcodec` — the wire codec round
    trip `unpack (pack m) = m` for uncompressed packing (C02); `hs2` — `s2.Decode ∘ s2.Encode = id`. -/
theorem value_roundtrip {M W C : Type} (pack : M → Option W) (unpack : W → Option M)
    (s2enc : W → C) (s2dec : C → Option W)
    (hcodec : ∀ m w, pack m = some w → unpack w = some m) (hs2 : ∀ w, s2dec (s2enc w) = some w)
    (m : M) (c : C) (h : packCache pack s2enc m = some c) : unpackCache unpack s2dec c = some m := by
  unfold packCache at h
  cases hp : pack m with
  | none => simp [hp] at h
  | some w =>
    simp only [hp, Option.map_some, Option.some.injEq] at h
    subst h
    simp [unpackCache, hs2, hcodec m w hp]

theorem subTTL_eqModTtl (d : Nat) (r : RR) : (subTTL d r).eqModTtl r = true := by
  unfold subTTL
  split
  · simp [RR.eqModTtl]
  · next h => split <;> simp [RR.eqModTtl, h]

theorem eqSection_map_subTTL (d : Nat) : ∀ rs : List RR, eqSection (rs.map (subTTL d)) rs = true
  | [] => rfl
  | r :: rest => by simp [eqSection, subTTL_eqModTtl, eqSection_map_subTTL d rest]

/-- ★ `served_equals_relayed_mod_ttl_id`: under the same two assumptions, what `cacheCtl.Get` returns
    for the stored bytes of `m`, any number of seconds later, has the same flags/rcode, the same
    questions and the same records in every section in the same order as `m`; only TTLs differ. -/
theorem served_equals_relayed_mod_ttl_id {W C : Type} (pack : Msg → Option W) (unpack : W → Option Msg)
    (s2enc : W → C) (s2dec : C → Option W)
    (hcodec : ∀ m w, pack m = some w → unpack w = some m) (hs2 : ∀ w, s2dec (s2enc w) = some w)
    (m : Msg) (c : C) (h : packCache pack s2enc m = some c) (elapsed : Nat) :
    ∃ m', serve unpack s2dec c elapsed = some m' ∧ m'.eqModTtlId m = true ∧ m'.id = m.id := by
  refine ⟨subtractTTL elapsed m, ?_, ?_, rfl⟩
  · simp [serve, value_roundtrip pack unpack s2enc s2dec hcodec hs2 m c h]
  · simp [Msg.eqModTtlId, subtractTTL, eqSection_map_subTTL]

/-- ageing never raises a TTL above `max ttl 1` (the floor is C08's business) -/
theorem subTTL_le (d : Nat) (r : RR) : (subTTL d r).ttl ≤ max r.ttl 1 := by
  unfold subTTL
  split
  · omega
  · split <;> simp <;> omega

example : (subTTL 10 ⟨[], 1, 1, 300, [1, 2, 3, 4]⟩).ttl = 290 := by decide
example : Msg.eqModTtlId ⟨1, 0x8180, [], [⟨[], 1, 1, 5, [1]⟩], [], []⟩ ⟨2, 0x8180, [], [⟨[], 1, 1, 9, [2]⟩], [], []⟩ = false := by decide

/-! ## 6. tie: pinned source facts -/

/-- the statements the models are transcriptions of -/
theorem pins :
    Facts.ck_bufSize = "len(q.Name) + 1 + 4 + len(mark)" ∧
    Facts.ck_copyName = "off := copy(b, q.Name)" ∧
    Facts.ck_term = "b[off] = 0" ∧
    Facts.ck_class = "binary.BigEndian.PutUint16(b[off:], uint16(q.Class))" ∧
    Facts.ck_type = "binary.BigEndian.PutUint16(b[off:], uint16(q.Type))" ∧
    Facts.ck_copyMark = "copy(b[off:], []byte(mark))" ∧
    Facts.ck_body = "{ b := pool.GetBuf(len(q.Name) + 1 + 4 + len(mark)) off := copy(b, q.Name) b[off] = 0 off++ binary.BigEndian.PutUint16(b[off:], uint16(q.Class)) off += 2 binary.BigEndian.PutUint16(b[off:], uint16(q.Type)) off += 2 copy(b[off:], []byte(mark)) return b }" ∧
    Facts.ck_lowerCall = "dnsmsg.ToLowerName(q.Name)" ∧
    Facts.ck_storeKey = "k := cacheKey(q, mark)" ∧
    Facts.ck_getKey = "key := cacheKey(q, ipMark)" ∧
    Facts.ck_storeMark = "mark := c.ipMark(clientAddr)" ∧
    Facts.ck_getMark = "ipMark := c.ipMark(rc.RemoteAddr.Addr())" := by
  (repeat' apply And.intro) <;> rfl

theorem pins_memcache :
    Facts.mc_tryRLock = "e.l.TryRLock()" ∧
    Facts.mc_recheck = "e.v == nil || e.k != string(k)" ∧
    Facts.mc_getLocked = "if e.l.TryRLock() { if e.v == nil || e.k != string(k) { e.l.RUnlock() return nil, time.Time{}, time.Time{} } v = pool.CopyBuf(e.v) storedTime = e.storedTime expireTime = e.expireTime e.l.RUnlock() c.hitTotal.Inc() return v, storedTime, expireTime }" ∧
    Facts.mc_storeBody = "{ ks := string(k) vCopy := pool.CopyBuf(v) e := newCacheEntry() e.l.Lock() e.storedTime = storedTime e.expireTime = expireTime e.k = ks e.v = vCopy e.l.Unlock() ttl := time.Until(expireTime) if setNX { c.backend.SetIfAbsent(ks, e, ttl) } else { c.backend.Set(ks, e, ttl) } }" ∧
    Facts.mc_setIfAbsent = "c.backend.SetIfAbsent(ks, e, ttl)" ∧
    Facts.mc_releaseBody = "{ e.l.Lock() e.storedTime = time.Time{} e.expireTime = time.Time{} e.k = \"\" if e.v != nil { pool.ReleaseBuf(e.v) e.v = nil } e.l.Unlock() cacheEntryPool.Put(e) }" ∧
    Facts.mc_listener = "releaseEntry(value)" ∧
    Facts.cv_pack = "n, err := m.Pack(b, false, 0)" ∧
    Facts.cv_encode = "compressedMsgBytes := s2.Encode(compressBuf, b)" ∧
    Facts.cv_decode = "decoded, err := s2.Decode(decodeBuf, m)" ∧
    Facts.cv_unpack = "return dnsmsg.UnpackMsg(decoded)" := by
  (repeat' apply And.intro) <;> rfl

theorem pins_netlist :
    Facts.nl_overlap = "rs[i].end.cmp(rs[i+1].start) >= 0" ∧
    Facts.nl_overlapLoop = "i < len(rs)-1" ∧
    Facts.nl_less = "return rs[i].start.cmp(rs[j].start) < 0" ∧
    Facts.nl_search = "return ip.cmp(l.e[i].start) < 0" ∧
    Facts.nl_zero = "i == 0" ∧
    Facts.nl_pred = "return l.e[i-1].contains(ip)" ∧
    Facts.nl_contains = "r.start.cmp(ip) <= 0 && ip.cmp(r.end) <= 0" ∧
    Facts.nl_addRange = "r.start.cmp(r.end) > 0" ∧
    Facts.nl_cmpBody = "{ if ip.h < ip2.h { return -1 } if ip.h > ip2.h { return 1 } if ip.l < ip2.l { return -1 } if ip.l > ip2.l { return 1 } return 0 }" ∧
    Facts.nl_addr2Ipv6 = "{ b := addr.As16() return Ipv6{ h: binary.BigEndian.Uint64(b[:8]), l: binary.BigEndian.Uint64(b[8:]), } }" ∧
    Facts.im_comment = "t, _, _ = strings.Cut(t, \"#\")" ∧
    Facts.im_trim = "t = strings.TrimSpace(t)" ∧
    Facts.im_add = "ok := listBuilder.Add(start, end, idx)" ∧
    Facts.im_assign = "idx := assignIdx(markStr)" ∧
    Facts.im_markIdx = "return m.s[idx]" ∧
    Facts.im_newIdx = "idx = len(labels) - 1" ∧
    Facts.im_nilMarker = "c.ipMarker == nil || !addr.IsValid()" ∧
    Facts.im_markInvalid = "!addr.IsValid()" ∧
    Facts.nl_lookupAddrInvalid = "!addr.IsValid()" ∧
    Facts.nl_addInvalid = "!start.IsValid() || !end.IsValid()" := by
  (repeat' apply And.intro) <;> rfl

end MosVerif.C07
