/-
  C04 — Answers are never mixed up between concurrent queries.
  Theorems over the composed protocol model (Model/System.lean): for EVERY interleaving of the atomic
  steps of any number of concurrent requests (cache on, evictions at any time, upstream replies delayed,
  reordered, duplicated, dropped, arriving after the waiter gave up), every request that answers with
  data answers with the upstream's answer for ITS OWN question.
-/
import MosVerif.Lemmas.SystemInv
import MosVerif.Model.Listeners
namespace MosVerif.C04
open MosVerif.System

/-- ★ `answers_own`: in every state reachable from the initial state by ANY sequence of steps, a request
    that has answered either failed (SERVFAIL) or carries `f` of its own question — never data produced
    for, or left over from, another query. -/
theorem answers_own (f : Key → Val) (qs : List Key) (steps : List Step) (t : Nat) (th : Thread) (v : Val)
    (ht : (run f (init qs) steps).threads[t]? = some th) (hd : th.stage = .done (some v)) :
    v = f th.q :=
  (inv_run f (init qs) steps (inv_init f qs)).done_ok t th v ht hd

/-- the question a request asked is never altered by any step of any request -/
theorem question_stable (f : Key → Val) (s : State) (steps : List Step) (t : Nat) :
    ((run f s steps).threads[t]?).map (·.q) = (s.threads[t]?).map (·.q) := by
  induction steps generalizing s with
  | nil => rfl
  | cons st rest ih =>
    show ((run f (step f s st) rest).threads[t]?).map (·.q) = _
    rw [ih, step_q]

/-- ★ stated on the original questions: request number `t` of the initial list, whatever the schedule. -/
theorem answers_own_initial (f : Key → Val) (qs : List Key) (steps : List Step) (t : Nat) (th : Thread) (v : Val)
    (ht : (run f (init qs) steps).threads[t]? = some th) (hd : th.stage = .done (some v)) :
    qs[t]? = some th.q ∧ v = f th.q := by
  refine ⟨?_, answers_own f qs steps t th v ht hd⟩
  have := question_stable f (init qs) steps t
  rw [ht] at this
  simp only [init, List.getElem?_map, Option.map_some, Option.map_map] at this
  cases hq : qs[t]? with
  | none => simp [hq] at this
  | some q => simp [hq] at this; rw [this]

/-- ★ the cache never holds data under the wrong key, in any reachable state. -/
theorem cache_own (f : Key → Val) (qs : List Key) (steps : List Step) (k : Key) (v : Val)
    (h : (k, v) ∈ (run f (init qs) steps).cache) : v = f k :=
  (inv_run f (init qs) steps (inv_init f qs)).cache_ok k v h

/-- ★ a late or duplicated reply (its waiter is gone) changes nothing at all. -/
theorem late_reply_noop (f : Key → Val) (s : State) (id : Nat) (h : lookup s.inflight id = none) :
    step f s (.reply id) = s := by
  simp only [step]
  cases lookup s.seen id <;> simp [h]

/-- non-vacuity: two requests for different questions, replies delivered in the opposite order,
    one request served from the cache the other one filled -/
example :
    let f : Key → Val := fun k => k * 10 + 1
    let s := run f (init [7, 8, 7]) [.start 0, .start 1, .reply 1, .reply 0, .start 2, .reply 0]
    s.threads.map (·.stage) = [.done (some 71), .done (some 81), .done (some 71)] := by decide

end MosVerif.C04
