/-
  C04 — Answers are never mixed up between concurrent queries.
  Theorems over the composed protocol model (Model/System.lean): for EVERY interleaving of the atomic
  steps of any number of concurrent requests (cache on, evictions at any time, upstream replies delayed,
  reordered, duplicated, dropped, arriving after the waiter gave up), every request that answers with
  data answers with the upstream's answer for ITS OWN question.
-/
import MosVerif.Lemmas.SystemInv
import MosVerif.Lemmas.SystemConcrete
import MosVerif.Lemmas.TranslatedCacheKey
import MosVerif.Model.Listeners
import MosVerif.Generated.Facts
namespace MosVerif.C04
open MosVerif.System

/-- ★ `answers_own`: in every state reachable from the initial state by ANY sequence of steps, a request
    that has answered either failed (SERVFAIL) or carries `f` of its own question — never data produced
    for, or left over from, another query. -/
theorem answers_own (f : Key → Val) (qs : List Key) (steps : List Step) (t : Nat) (th : Thread) (v : Val)
    (ht : (run f (init qs) steps).threads[t]? = some th) (hd : th.stage = .done (some v)) :
    v = f th.q :=
  (inv_run f (init qs) steps (inv_init f qs)).done_ok t th v ht hd

/-- the question a request asked is never altered by any step of any request -/
theorem question_stable (f : Key → Val) (s : State) (steps : List Step) (t : Nat) :
    ((run f s steps).threads[t]?).map (·.q) = (s.threads[t]?).map (·.q) := by
  induction steps generalizing s with
  | nil => rfl
  | cons st rest ih =>
    show ((run f (step f s st) rest).threads[t]?).map (·.q) = _
    rw [ih, step_q]

/-- ★ stated on the original questions: request number `t` of the initial list, whatever the schedule. -/
theorem answers_own_initial (f : Key → Val) (qs : List Key) (steps : List Step) (t : Nat) (th : Thread) (v : Val)
    (ht : (run f (init qs) steps).threads[t]? = some th) (hd : th.stage = .done (some v)) :
    qs[t]? = some th.q ∧ v = f th.q := by
  refine ⟨?_, answers_own f qs steps t th v ht hd⟩
  have := question_stable f (init qs) steps t
  rw [ht] at this
  simp only [init, List.getElem?_map, Option.map_some, Option.map_map] at this
  cases hq : qs[t]? with
  | none => simp [hq] at this
  | some q => simp [hq] at this; rw [this]

/-- ★ the cache never holds data under the wrong key, in any reachable state. -/
theorem cache_own (f : Key → Val) (qs : List Key) (steps : List Step) (k : Key) (v : Val)
    (h : (k, v) ∈ (run f (init qs) steps).cache) : v = f k :=
  (inv_run f (init qs) steps (inv_init f qs)).cache_ok k v h

/-- ★ a late or duplicated reply (its waiter is gone) changes nothing at all. -/
theorem late_reply_noop (f : Key → Val) (s : State) (id : Nat) (h : lookup s.inflight id = none) :
    step f s (.reply id) = s := by
  simp only [step]
  cases lookup s.seen id <;> simp [h]

/-- non-vacuity: two requests for different questions, replies delivered in the opposite order,
    one request served from the cache the other one filled -/
example :
    let f : Key → Val := fun k => k * 10 + 1
    let s := run f (init [7, 8, 7]) [.start 0, .start 1, .reply 1, .reply 0, .start 2, .reply 0]
    s.threads.map (·.stage) = [.done (some 71), .done (some 81), .done (some 71)] := by decide

/-! ### on concrete questions (C04 ∘ C07): the abstract key is the byte string `cacheCtl` builds -/

/-- ★ requests carry a question and the client's group label; the key is the layout `cacheKey` produces for the
    lower-cased question (`Props/C07.key_layout`). For every interleaving of any number of requests, a request
    that answers with data answers with the upstream's answer `F` for its own (lower-cased name, class, type,
    group). -/
theorem answers_own_question (F : CacheKey.Bytes → Val) (reqs : List SystemConcrete.Req) (steps : List Step)
    (t : Nat) (th : Thread) (v : Val)
    (ht : (run (fun k => F (SystemConcrete.dec k)) (init (reqs.map SystemConcrete.keyOf)) steps).threads[t]? = some th)
    (hd : th.stage = .done (some v)) :
    ∃ r, reqs[t]? = some r ∧ v = F (SystemConcrete.layoutOf r) :=
  SystemConcrete.answers_own_concrete F reqs steps t th v ht hd

/-- ★ two requests share cached data exactly when they agree on the lower-cased name, the class, the type and the
    client group (valid wire names): a query in class CH can never be served the IN answer, nor one client group
    another group's answer. -/
theorem share_iff_same_question {r₁ r₂ : SystemConcrete.Req} (h₁ : CacheKey.WfName63 r₁.q.name)
    (h₂ : CacheKey.WfName63 r₂.q.name) :
    SystemConcrete.keyOf r₁ = SystemConcrete.keyOf r₂ ↔
      (CacheKey.toLowerName r₁.q.name = CacheKey.toLowerName r₂.q.name ∧ r₁.q.cls = r₂.q.cls ∧
        r₁.q.typ = r₂.q.typ ∧ r₁.mark = r₂.mark) :=
  SystemConcrete.keyOf_eq_iff h₁ h₂

/-- non-vacuity on concrete questions: the same name in class IN and class CH, replies in the opposite order -/
example :
    let a : SystemConcrete.Req := ⟨⟨[1, 97], 1, 1⟩, []⟩
    let b : SystemConcrete.Req := ⟨⟨[1, 65], 3, 1⟩, []⟩      -- "A" in class CH
    SystemConcrete.keyOf a ≠ SystemConcrete.keyOf b := by decide

/-- tie: the key the composed model numbers is the one `cacheKey` writes — name, terminator, class, type, group
    label: `cacheKey_translated` (Lemmas/TranslatedCacheKey, the model proved equal to the translation of the
    current source) — and, pinned source facts shared with C07, both `Store` and `Get` build it from the lower-cased
    question and the client's group. -/
theorem pins :
    Facts.ck_lowerCall = "dnsmsg.ToLowerName(q.Name)" ∧
    Facts.ck_storeKey = "k := cacheKey(q, mark)" ∧
    Facts.ck_getKey = "key := cacheKey(q, ipMark)" ∧
    Facts.ck_storeMark = "mark := c.ipMark(clientAddr)" ∧
    Facts.ck_getMark = "ipMark := c.ipMark(rc.RemoteAddr.Addr())" := by
  (repeat' apply And.intro) <;> rfl

end MosVerif.C04
