/-
  C20 — Recycled memory is exclusively owned (what an executable model can carry).

  * `safe` is the ownership monitor; `safe_iff_per_object` shows ownership is a per-object property, hence
    `disjoint_interleave_safe`: activities that touch disjoint objects cannot interfere in ANY interleaving;
    `no_use_after_release`, `no_double_release`, `no_foreign_use` say what a safe trace excludes.
  * protocol models of the cross-goroutine hand-offs in the code: every interleaving is safe
    (finite quantifier: the interleavings of two short programs — decided exhaustively), and the pre-fix
    reuse-transport hand-off has an unsafe interleaving (witness).
  * `poolSafe` is the monitor run on get/release traces recorded from the real code by the pool hook.
  Freedom from data races as such (Go memory model) is NOT expressible here and is not claimed.
-/
import MosVerif.Model.Own
import MosVerif.Lemmas.PoolView
import MosVerif.Generated.Facts
namespace MosVerif.C20
open MosVerif.Own

theorem setOwner_same (o : Owners) (b : Buf) (t : Option Thread) : setOwner o b t b = t := by
  simp [setOwner]

theorem setOwner_other {o : Owners} {b b' : Buf} {t : Option Thread} (h : b' ≠ b) : setOwner o b t b' = o b' := by
  simp [setOwner, h]

/-- ★ Ownership is a per-object property: a trace is safe iff its events on each single object are. -/
theorem safeFrom_iff_per_object (o : Owners) (tr : List Event) :
    safeFrom o tr = true ↔ ∀ b, safeFromB b (o b) tr = true := by
  induction tr generalizing o with
  | nil => simp [safeFrom, safeFromB]
  | cons e es ih =>
    simp only [safeFrom, safeFromB]
    cases ht : transition (o e.buf) e with
    | none =>
      simp only [Bool.false_eq_true, false_iff]
      intro h
      have := h e.buf
      simp [ht] at this
    | some n =>
      simp only
      rw [ih]
      constructor
      · intro h b
        by_cases hb : e.buf = b
        · subst hb
          simp only [↓reduceIte, ht]
          simpa [setOwner_same] using h e.buf
        · simp only [hb, ↓reduceIte]
          have := h b
          rwa [setOwner_other (fun h' => hb h'.symm)] at this
      · intro h b
        by_cases hb : e.buf = b
        · subst hb
          have := h e.buf
          simp only [↓reduceIte, ht] at this
          simpa [setOwner_same] using this
        · have := h b
          simp only [hb, ↓reduceIte] at this
          rwa [setOwner_other (fun h' => hb h'.symm)]

theorem safe_iff_per_object (tr : List Event) : safe tr = true ↔ ∀ b, safeFromB b none tr = true := by
  unfold safe
  rw [safeFrom_iff_per_object]
  rfl

/-- events of a trace that concern object `b` -/
def onBuf (b : Buf) (tr : List Event) : List Event := tr.filter (fun e => e.buf = b)

theorem safeFromB_filter (b : Buf) (cur : Option Thread) (tr : List Event) :
    safeFromB b cur tr = safeFromB b cur (onBuf b tr) := by
  induction tr generalizing cur with
  | nil => rfl
  | cons e es ih =>
    unfold onBuf
    by_cases hb : e.buf = b
    · simp only [safeFromB, hb, ↓reduceIte, List.filter_cons, decide_true]
      cases transition cur e with
      | none => rfl
      | some n => exact ih n
    · simp only [safeFromB, hb, ↓reduceIte, List.filter_cons, decide_false, Bool.false_eq_true]
      exact ih cur

theorem onBuf_interleave (b : Buf) (xs ys tr : List Event) (h : tr ∈ interleavings xs ys)
    (hy : ∀ e ∈ ys, e.buf ≠ b) : onBuf b tr = onBuf b xs := by
  induction xs generalizing ys tr with
  | nil =>
    cases ys with
    | nil => simp [interleavings] at h; subst h; rfl
    | cons y ys' =>
      simp [interleavings] at h; subst h
      unfold onBuf
      simp only [List.filter_nil, List.filter_eq_nil_iff, decide_eq_true_eq]
      exact hy
  | cons x xs ihx =>
    induction ys generalizing tr with
    | nil => simp [interleavings] at h; subst h; rfl
    | cons y ys ihy =>
      simp only [interleavings, List.mem_append, List.mem_map] at h
      rcases h with ⟨tr', h', rfl⟩ | ⟨tr', h', rfl⟩
      · have := ihx (y :: ys) tr' h' hy
        unfold onBuf at *
        rw [List.filter_cons, this, List.filter_cons]
      · have hyb : y.buf ≠ b := hy y (by simp)
        have := ihy tr' h' (fun e he => hy e (List.mem_cons_of_mem _ he))
        unfold onBuf at *
        rw [List.filter_cons]
        simp only [hyb, decide_false, Bool.false_eq_true, ↓reduceIte]
        exact this

theorem interleavings_comm_mem (xs ys tr : List Event) (h : tr ∈ interleavings xs ys) :
    tr ∈ interleavings ys xs := by
  induction xs generalizing ys tr with
  | nil =>
    cases ys with
    | nil => simpa [interleavings] using h
    | cons y ys' => simpa [interleavings] using h
  | cons x xs ihx =>
    induction ys generalizing tr with
    | nil => simpa [interleavings] using h
    | cons y ys ihy =>
      simp only [interleavings, List.mem_append, List.mem_map] at h ⊢
      rcases h with ⟨tr', h', rfl⟩ | ⟨tr', h', rfl⟩
      · exact Or.inr ⟨tr', ihx (y :: ys) tr' h', rfl⟩
      · exact Or.inl ⟨tr', ihy tr' h', rfl⟩

/-- ★ Two activities that touch disjoint sets of objects (two requests with their own messages and
    buffers) stay safe under EVERY interleaving: neither can observe or corrupt the other's data. -/
theorem disjoint_interleave_safe (xs ys : List Event)
    (hdisj : ∀ ex ∈ xs, ∀ ey ∈ ys, ex.buf ≠ ey.buf) (hx : safe xs = true) (hy : safe ys = true) :
    ∀ tr ∈ interleavings xs ys, safe tr = true := by
  intro tr htr
  rw [safe_iff_per_object] at *
  intro b
  by_cases hbx : ∃ ex ∈ xs, ex.buf = b
  · obtain ⟨ex, hex, rfl⟩ := hbx
    rw [safeFromB_filter, onBuf_interleave _ xs ys tr htr (fun e he h' => hdisj ex hex e he h'.symm), ← safeFromB_filter]
    exact hx _
  · have hnx : ∀ e ∈ xs, e.buf ≠ b := fun e he h' => hbx ⟨e, he, h'⟩
    rw [safeFromB_filter, onBuf_interleave _ ys xs tr (interleavings_comm_mem _ _ _ htr) hnx, ← safeFromB_filter]
    exact hy _

theorem onBuf_append (b : Buf) (xs ys : List Event) : onBuf b (xs ++ ys) = onBuf b xs ++ onBuf b ys := by
  simp [onBuf, List.filter_append]

theorem onBuf_single (b : Buf) (e : Event) (h : e.buf = b) : onBuf b [e] = [e] := by
  simp [onBuf, h]

theorem onBuf_none (b : Buf) (mid : List Event) (h : ∀ e ∈ mid, e.buf ≠ b) : onBuf b mid = [] := by
  simp only [onBuf, List.filter_eq_nil_iff, decide_eq_true_eq]; exact h

/-- after a release of `b`, the next event on `b` cannot be performed by anybody but a `get` -/
theorem after_release_stuck (b : Buf) (t : Thread) (e2 : Event) (he2 : e2.buf = b)
    (hnotget : ∀ u, e2 ≠ .get u b) (rest : List Event) :
    ∀ (l : List Event) (cur : Option Thread),
      safeFromB b cur (l ++ [.release t b] ++ [e2] ++ rest) = true → False := by
  intro l
  induction l with
  | nil =>
    intro cur hh
    cases e2 with
    | get u b' => simp only [Event.buf] at he2; subst he2; exact absurd rfl (hnotget u)
    | use u b' =>
      simp only [Event.buf] at he2; subst he2
      simp only [List.nil_append, List.cons_append, safeFromB, Event.buf, ↓reduceIte, transition] at hh
      by_cases hc : cur = some t <;> simp [hc] at hh
    | send u v b' =>
      simp only [Event.buf] at he2; subst he2
      simp only [List.nil_append, List.cons_append, safeFromB, Event.buf, ↓reduceIte, transition] at hh
      by_cases hc : cur = some t <;> simp [hc] at hh
    | release u b' =>
      simp only [Event.buf] at he2; subst he2
      simp only [List.nil_append, List.cons_append, safeFromB, Event.buf, ↓reduceIte, transition] at hh
      by_cases hc : cur = some t <;> simp [hc] at hh
  | cons e es ih =>
    intro cur hh
    simp only [List.cons_append, safeFromB] at hh
    split at hh
    · split at hh
      · exact ih _ (by simpa using hh)
      · simp at hh
    · exact ih _ (by simpa using hh)

/-- ★ no use after release: in a safe trace an object that was released is obtained again (`get`)
    before anybody uses it. -/
theorem no_use_after_release (pre mid post : List Event) (t u : Thread) (b : Buf)
    (hmid : ∀ e ∈ mid, e.buf ≠ b) : safe (pre ++ [.release t b] ++ mid ++ [.use u b] ++ post) = false := by
  cases hs : safe (pre ++ [.release t b] ++ mid ++ [.use u b] ++ post) with
  | false => rfl
  | true =>
    rw [safe_iff_per_object] at hs
    have h := hs b
    rw [safeFromB_filter] at h
    rw [onBuf_append, onBuf_append, onBuf_append, onBuf_append, onBuf_none b mid hmid,
      onBuf_single b _ rfl, onBuf_single b _ rfl, List.append_nil] at h
    exact absurd h (fun hh => after_release_stuck b t (.use u b) rfl (by intro v; simp) _ _ _ hh)

/-- ★ no double release -/
theorem no_double_release (pre mid post : List Event) (t u : Thread) (b : Buf)
    (hmid : ∀ e ∈ mid, e.buf ≠ b) : safe (pre ++ [.release t b] ++ mid ++ [.release u b] ++ post) = false := by
  cases hs : safe (pre ++ [.release t b] ++ mid ++ [.release u b] ++ post) with
  | false => rfl
  | true =>
    rw [safe_iff_per_object] at hs
    have h := hs b
    rw [safeFromB_filter] at h
    rw [onBuf_append, onBuf_append, onBuf_append, onBuf_append, onBuf_none b mid hmid,
      onBuf_single b _ rfl, onBuf_single b _ rfl, List.append_nil] at h
    exact absurd h (fun hh => after_release_stuck b t (.release u b) rfl (by intro v; simp) _ _ _ hh)

/-- ★ only the owner may use, hand over or release an object: a foreign use makes the trace unsafe -/
theorem no_foreign_use (t u : Thread) (b : Buf) (h : t ≠ u) (post : List Event) :
    safe ([.get t b, .use u b] ++ post) = false := by
  simp [safe, safeFrom, transition, noOwners, setOwner, Event.buf, h]

/-! ### protocol models of the hand-offs in the code (threads: 0 = caller / loop, 1 = worker / handler) -/

/-- reuse transport after the repair (a0d8595): the caller copies the payload (object 1) for the worker,
    hands the copy over at spawn, and releases its own payload (object 0) whenever it returns;
    the worker writes the copy and releases it. -/
def reuseCallerPre : List Event := [.get 0 0, .use 0 0, .get 0 1, .use 0 1, .send 0 1 1]
def reuseCallerRest : List Event := [.use 0 0, .release 0 0]      -- may return early (ctx done) or late
def reuseWorker : List Event := [.use 1 1, .release 1 1]

/-- ★ every interleaving of caller and worker after the spawn is safe -/
theorem reuse_handoff_safe :
    ∀ tr ∈ interleavings reuseCallerRest reuseWorker, safe (reuseCallerPre ++ tr) = true := by
  simp only [interleavings, reuseCallerRest, reuseWorker, reuseCallerPre, List.map, List.append, List.cons_append, List.nil_append]
  decide

/-- before the repair the worker wrote the caller's own payload, which the caller's deferred release
    could return to the pool first: an unsafe interleaving exists (D15) -/
def reuseOldCallerPre : List Event := [.get 0 0, .use 0 0, .send 0 1 0]
def reuseOldCallerRest : List Event := [.release 0 0]
def reuseOldWorker : List Event := [.use 1 0]
theorem reuse_old_handoff_unsafe :
    ∃ tr ∈ interleavings reuseOldCallerRest reuseOldWorker, safe (reuseOldCallerPre ++ tr) = false := by
  refine ⟨[.release 0 0, .use 1 0], ?_, by decide⟩
  simp [interleavings, reuseOldCallerRest, reuseOldWorker]

/-- UDP listener: the read loop (0) decodes its receive buffer (object 0, never pooled: it stays the
    loop's) into a fresh message (object 1), hands the message to the handler goroutine (1) and goes on
    reusing the receive buffer; the handler uses and releases the message. -/
theorem udp_handoff_safe :
    ∀ tr ∈ interleavings [.use 0 0, .use 0 0] [.use 1 1, .use 1 1, .release 1 1],
      safe ([.get 0 0, .use 0 0, .get 0 1, .use 0 1, .send 0 1 1] ++ tr) = true := by
  simp only [interleavings, List.map, List.append, List.cons_append, List.nil_append]
  decide

/-- cache entry recycle vs reader: the reader (1) copies the value under the entry lock, so the entry's
    buffer (object 0) is only ever touched by its holder; the eviction path (0) releases it after the
    reader's critical section or before it (then the reader sees `v == nil` and touches nothing). -/
theorem cache_reader_safe :
    safe [.get 0 0, .use 0 0, .send 0 1 0, .use 1 0, .send 1 0 0, .release 0 0] = true ∧
    safe [.get 0 0, .use 0 0, .release 0 0] = true := by decide

/-- quic stream worker after the repair (8f5d69e): same shape as the reuse transport -/
theorem quic_handoff_safe :
    ∀ tr ∈ interleavings reuseCallerRest reuseWorker, safe (reuseCallerPre ++ tr) = true := reuse_handoff_safe

/-! ### the pool hook's monitor -/

/-- ★ the hook's monitor accepts a release only of a buffer that is currently handed out, and a get
    only of a buffer that is not: so an accepted trace has no double release and no buffer handed out twice -/
theorem poolStep_release (live : List Buf) (b : Buf) (l' : List Buf) (h : poolStep live (.release b) = some l') :
    b ∈ live ∧ l' = live.erase b := by
  simp only [poolStep] at h
  split at h
  · rename_i hc
    exact ⟨by simpa using hc, by simpa using h.symm⟩
  · simp at h

theorem poolStep_get (live : List Buf) (b : Buf) (l' : List Buf) (h : poolStep live (.get b) = some l') :
    b ∉ live ∧ l' = b :: live := by
  simp only [poolStep] at h
  split at h
  · simp at h
  · rename_i hc
    exact ⟨by simpa using hc, by simpa using h.symm⟩

theorem poolSafe_double_release_rejected (b : Buf) (rest : List PoolEvent) :
    poolSafe [] ([.get b, .release b, .release b] ++ rest) = false := by
  simp [poolSafe, poolRun, poolStep]

example : safe [.get 0 5, .use 0 5, .send 0 1 5, .use 1 5, .release 1 5, .get 2 5, .release 2 5] = true := by decide
example : safe [.get 0 5, .release 0 5, .use 0 5] = false := by decide
example : poolSafe [] [.get 1, .release 1, .get 1, .release 1] = true := by decide
example : poolSafe [] [.get 1, .release 1, .release 1] = false := by decide

/-! ### what a function may see of a pooled buffer (Model/PoolView: the DoH GET decode, defect D60) -/

/-- ★ the DoH GET path parses exactly the octets the base64 decoder produced — `buf[:n]` — whatever the previous
    owner of the pooled buffer left in it: two requests that decode alike are parsed alike. -/
theorem doh_get_view_independent_of_previous_owner (d₁ d₂ decoded : PoolView.Bytes)
    (h₁ : decoded.length ≤ d₁.length) (h₂ : decoded.length ≤ d₂.length) :
    PoolView.viewFixed d₁ decoded = PoolView.viewFixed d₂ decoded ∧ PoolView.viewFixed d₁ decoded = some decoded :=
  ⟨PoolView.viewFixed_independent d₁ d₂ decoded h₁ h₂, PoolView.viewFixed_eq d₁ decoded h₁⟩

/-- the hypothesis is what distinguishes the repaired code: parsing the whole buffer shows the previous owner's
    octets verbatim as soon as the decoder skipped a character -/
theorem doh_get_whole_buffer_leaks (junk decoded tail : PoolView.Bytes) (h : junk.length = decoded.length) :
    PoolView.viewWhole (junk ++ tail) decoded = some (decoded ++ tail) :=
  PoolView.viewWhole_shows_tail junk decoded tail h

/-- tie (pinned source facts): both HTTP listeners keep the decoder's count and parse `buf[:n]` -/
theorem pins_poolview :
    Facts.pv_fastDecode = "n, err := base64.RawURLEncoding.Decode(buf, base64Dns)" ∧
    Facts.pv_fastView = "reqWireMsg = buf[:n]" ∧
    Facts.pv_goDecode = "n, err := base64.RawURLEncoding.Decode(buf, utils.Str2BytesUnsafe(s))" ∧
    Facts.pv_goView = "reqWireMsg = buf[:n]" := by decide

end MosVerif.C20
