/-
  C10 — source facts of the start-up checks the LoadCfg model relies on (regenerated on every run).
-/
import MosVerif.Generated.Facts
import MosVerif.Lemmas.LoadCfgLemmas
namespace MosVerif.C10

/-- (the range check `cfg.Reject < 0 || cfg.Reject > 15` of `loadRule` is tied by translation:
    `Router.rejectRange_translated` in `Lemmas/TranslatedC10.lean`) -/
theorem pins_cfg :
    Facts.yaml_onedoc = "!errors.Is(err, io.EOF)" := by decide

end MosVerif.C10
