/-
  C10 — Rules are first-match and a query reaches only the selected upstream.
  Theorems over `Router.handleReq` / `Router.handle` for every rule list, query and upstream behaviour.
  (Start-up validation of tags / unknown keys is checked by the `loadcfg` correspondence runs.)
-/
import MosVerif.Props.C10Pins
import MosVerif.Lemmas.TranslatedC10
import MosVerif.Lemmas.RouterBasic
import MosVerif.Lemmas.RouterSpecMain
import MosVerif.Model.RouterIO
import MosVerif.Lemmas.LoadCfgLemmas
namespace MosVerif.C10
open MosVerif.Wire MosVerif.Router

/-- The first rule, in configured order, whose condition holds for the (lower-cased) name. -/
def firstRule (env : Env) (q : Question) : Option Rule := env.rules.find? (fun r => r.applies q.name)

/-- ★ No rule applies ⇒ REFUSED and nobody is contacted. -/
theorem no_rule_refused (env : Env) (q : Question) (h : firstRule env q = none) :
    (handleReq env q).1 = makeEmptyResp q rcodeRefused ∧ (handleReq env q).2.2 = [] := by
  unfold firstRule at h
  unfold handleReq
  rw [find_spec, h]
  cases env.rules.findIdx? (fun r => r.applies q.name) <;> simp

/-- ★ A reject rule answers with its rcode and contacts no upstream — whatever rules follow it. -/
theorem reject_contacts_nobody (env : Env) (q : Question) (r : Rule)
    (h : firstRule env q = some r) (hr : r.reject > 0) :
    (handleReq env q).1 = makeEmptyResp q r.reject ∧ (handleReq env q).2.2 = [] := by
  unfold firstRule at h
  unfold handleReq
  rw [find_spec, h]
  have : ∃ j, env.rules.findIdx? (fun r => r.applies q.name) = some j := by
    cases hj : env.rules.findIdx? (fun r => r.applies q.name) with
    | some j => exact ⟨j, rfl⟩
    | none =>
      rw [List.findIdx?_eq_none_iff] at hj
      have := List.find?_some h
      have hm := List.mem_of_find?_eq_some h
      exact absurd this (by simpa using hj r hm)
  obtain ⟨j, hj⟩ := this
  simp [hj, hr]

/-- ★ A rule without action (no reject, no upstream) answers REFUSED and contacts nobody. -/
theorem no_action_refused (env : Env) (q : Question) (r : Rule)
    (h : firstRule env q = some r) (hr : r.reject = 0) (hu : r.upstream = none) :
    (handleReq env q).1 = makeEmptyResp q rcodeRefused ∧ (handleReq env q).2.2 = [] := by
  unfold firstRule at h
  unfold handleReq
  rw [find_spec, h]
  cases env.rules.findIdx? (fun r => r.applies q.name) <;> simp [hr, hu]

/-- ★ A forward rule sends at most one query, only to that rule's upstream, and the query is
    `packReq` of exactly the given question (the caller passes the lower-cased name; class and
    type untouched; RD = 1 by `reqMsg`). No other upstream is ever contacted. -/
theorem forward_only_selected (env : Env) (q : Question) (k : Nat) (wire : Bytes)
    (h : (k, wire) ∈ (handleReq env q).2.2) :
    ∃ r, firstRule env q = some r ∧ r.reject = 0 ∧ r.upstream = some k ∧ packReq env q = .ok wire := by
  unfold firstRule
  unfold handleReq at h
  rw [find_spec] at h
  cases hf : env.rules.find? (fun r => r.applies q.name) with
  | none =>
    rw [hf] at h
    cases env.rules.findIdx? (fun r => r.applies q.name) <;> simp at h
  | some r =>
    rw [hf] at h
    cases hj : env.rules.findIdx? (fun r => r.applies q.name) with
    | none => rw [hj] at h; simp at h
    | some j =>
      rw [hj] at h
      simp only at h
      by_cases hr : r.reject > 0
      · simp [hr] at h
      · have hr0 : r.reject = 0 := by omega
        simp only [isReject, decide_eq_true_eq, hr, ↓reduceIte] at h
        cases hu : r.upstream with
        | none => simp [hu] at h
        | some u =>
          simp only [hu] at h
          cases hp : packReq env q with
          | ok w =>
            simp only [hp] at h
            have : (k, wire) = (u, w) := by
              split at h
              · split at h <;> simpa using h
              · simpa using h
            cases this
            exact ⟨r, rfl, hr0, hu, rfl⟩
          | err => simp [hp] at h
          | panic => simp [hp] at h

/-- ★ The forwarded message: RD set, exactly the one question, nothing in answer/authority. -/
theorem forwarded_msg_shape (env : Env) (q : Question) :
    (reqMsg env q).hdr.rd = true ∧ (reqMsg env q).hdr.response = false ∧
    (reqMsg env q).questions = [q] ∧ (reqMsg env q).answers = [] ∧ (reqMsg env q).authorities = [] := by
  simp [reqMsg, emptyHdr]

/-- The question handed to `handleReq` by `handle` is the query's first question with a lower-cased
    name and unchanged type and class. -/
theorem handle_forwards_lowercased (env : Env) (m : Msg) (q0 : Question) (k : Nat) (wire : Bytes)
    (hq : m.questions = [q0]) (hs : m.hdr.response = false ∧ m.hdr.rd = true ∧ m.hdr.opcode = 0)
    (h : (k, wire) ∈ (handle env m).forwards) :
    packReq env ⟨lowerName q0.name, q0.qtype, q0.qclass⟩ = .ok wire := by
  unfold handle at h
  simp only [hs.1, hs.2.1, hs.2.2, hq, List.length_cons, List.length_nil] at h
  simp at h
  obtain ⟨r, _, _, _, hp⟩ := forward_only_selected env _ k wire h
  exact hp

/-- ★ A forward rule that decides a well-formed question sends exactly ONE query, to its own upstream
    (`packReq` cannot fail: no silent "nothing forwarded" path) … -/
theorem forward_rule_sends_once (env : Env) (q : Question) (r : Rule) (u : Nat) (hq : questionWF q = true)
    (h : firstRule env q = some r) (hr : r.reject = 0) (hu : r.upstream = some u) :
    ∃ wire, packReq env q = .ok wire ∧ (handleReq env q).2.2 = [(u, wire)] := by
  obtain ⟨wire, hp, _⟩ := packReq_decodes env q hq
  refine ⟨wire, hp, ?_⟩
  rw [← routed_snd, routed_forward env q r u wire h (by omega) hu hp]

/-- ★ … and the bytes every contacted upstream receives decode (by the real decoder model, C02) to RD = 1,
    QR = 0, exactly the query's question with a lower-cased name and untouched type and class, no answer or
    authority records and one OPT record: the executable specification's C10 clauses hold for the model. -/
theorem forwarded_wire_decodes (env : Env) (m : Msg) (q0 : Question) (k : Nat) (wire : Bytes)
    (hq : m.questions = [q0]) (hs : m.hdr.response = false ∧ m.hdr.rd = true ∧ m.hdr.opcode = 0)
    (hwf : questionWF q0 = true) (h : (k, wire) ∈ (handle env m).forwards) :
    ∃ fm, unpackMsg wire = .ok fm ∧ fm.hdr.rd = true ∧ fm.hdr.response = false ∧
      fm.questions = [⟨lowerName q0.name, q0.qtype, q0.qclass⟩] ∧ fm.answers = [] ∧ fm.authorities = [] ∧
      fm.additionals.length = 1 := by
  have hp := handle_forwards_lowercased env m q0 k wire hq hs h
  refine ⟨_, packReq_ok_decodes env _ (questionWF_lower q0 hwf) wire hp, ?_⟩
  simp [reqMsg, emptyHdr]

/-- ★ The routing judgement of the executable specification (first applicable rule decides; reject code;
    REFUSED; one query to exactly the selected upstream, decodable, with the right question; SERVFAIL or relay)
    accepts the model on every path — the C10 face of `C03.model_meets_spec`. -/
theorem routing_meets_spec (env : Env) (m : Msg)
    (hq : ∀ q ∈ m.questions, questionWF q = true) (hrej : ∀ ru ∈ env.rules, ru.reject < 16) :
    RouterIO.spec env m ⟨(handle env m).resp, (handle env m).forwards⟩ = "ok" :=
  spec_model env m hq hrej

/-- … and for a router that started: `loadRule` refuses a `reject` outside 0..15 (`LoadCfg.acceptsFull`), so for
    the rules of an accepted configuration the reject-code hypothesis holds by itself. -/
theorem routing_meets_spec_started (c : LoadCfg.Cfg) (env : Env) (m : Msg) (hc : LoadCfg.acceptsFull c = true)
    (hrules : env.rules.map (·.reject) = c.rejects) (hq : ∀ q ∈ m.questions, questionWF q = true) :
    RouterIO.spec env m ⟨(handle env m).resp, (handle env m).forwards⟩ = "ok" := by
  refine spec_model env m hq ?_
  intro ru hru
  simp only [LoadCfg.acceptsFull, Bool.and_eq_true, List.all_eq_true, LoadCfg.rejectInRange, decide_eq_true_eq] at hc
  have := hc.1.2 ru.reject (by rw [← hrules]; exact List.mem_map_of_mem hru)
  omega

/-- non-vacuity: a two-rule list where the first (reject) rule wins over a later forward rule -/
example :
    let env : Env := ⟨false, .none, [⟨some [[3, 99, 111, 109]], false, 3, none⟩, ⟨none, false, 0, some 0⟩], [.fail]⟩
    let q : Question := ⟨[1, 97, 3, 99, 111, 109], 1, 1⟩
    (handleReq env q).1.hdr.rcode = 3 ∧ (handleReq env q).2.2 = [] := by decide

/-- ★ `load_ok_iff`: the router starts iff the configuration has no unknown key, every upstream has a
    non-empty unique tag and an address, every domain set a non-empty unique tag, and every rule's
    `domain` / `forward` reference names an existing domain set / upstream — for every configuration. -/
theorem load_ok_iff (c : LoadCfg.Cfg) : LoadCfg.accepts c = LoadCfg.specAccepts c := by
  unfold LoadCfg.accepts LoadCfg.specAccepts
  by_cases hu : c.unknownKey = true
  · simp [hu]
  · simp only [hu, Bool.false_eq_true, ↓reduceIte, Bool.not_false, Bool.true_and]
    have hup := LoadCfg.loadUpstreams_spec [] c.upstreams
    cases hl : LoadCfg.loadUpstreams [] c.upstreams with
    | none =>
      -- some upstream is rejected: the specification's upstream clauses fail
      have : ¬ ((c.upstreams.map (·.1)).all (· ≠ "") = true ∧ (c.upstreams.map (·.1)).Nodup ∧ c.upstreams.all (·.2) = true ∧
          ∀ x ∈ c.upstreams.map (·.1), x ∉ ([] : List String)) := by
        intro h
        obtain ⟨r, hr, _⟩ := hup.mpr h
        rw [hl] at hr; cases hr
      simp only
      by_cases h1 : (c.upstreams.map (·.1)).all (· ≠ "") = true
      · by_cases h2 : (c.upstreams.map (·.1)).Nodup
        · by_cases h3 : c.upstreams.all (·.2) = true
          · exact absurd ⟨h1, h2, h3, by simp⟩ this
          · rw [Bool.not_eq_true] at h3; rw [h3]; simp
        · have : decide (c.upstreams.map (·.1)).Nodup = false := by simpa using h2
          rw [this]; simp
      · rw [Bool.not_eq_true] at h1; rw [h1]; simp
    | some ups =>
      have hspec := hup.mp ⟨ups, hl, by
        have := LoadCfg.loadUpstreams_mem c.upstreams ups hl
        intro x
        have hx := this x
        simp only [List.not_mem_nil, false_or]
        constructor
        · intro h; have : ups.contains x = true := by simpa using h
          rw [hx] at this; simpa using this
        · intro h; have : (c.upstreams.map (·.1)).contains x = true := by simpa using h
          rw [← hx] at this; simpa using this⟩
      obtain ⟨h1, h2, h3, _⟩ := hspec
      simp only [h1, h2, h3, decide_true, Bool.true_and]
      have hds := LoadCfg.loadUpstreams_spec [] (c.domainSets.map (fun t => (t, true)))
      rw [LoadCfg.loadDomainSets_eq]
      have hmap : (c.domainSets.map (fun t => (t, true))).map (·.1) = c.domainSets := by simp [List.map_map, Function.comp_def]
      cases hd : LoadCfg.loadUpstreams [] (c.domainSets.map (fun t => (t, true))) with
      | none =>
        have : ¬ (c.domainSets.all (· ≠ "") = true ∧ c.domainSets.Nodup) := by
          intro h
          have := hds.mpr (by rw [hmap]; exact ⟨h.1, h.2, by simp, by simp⟩)
          obtain ⟨r, hr, _⟩ := this
          rw [hd] at hr; cases hr
        simp only
        by_cases g1 : c.domainSets.all (· ≠ "") = true
        · by_cases g2 : c.domainSets.Nodup
          · exact absurd ⟨g1, g2⟩ this
          · have : decide c.domainSets.Nodup = false := by simpa using g2
            rw [this]; simp
        · rw [Bool.not_eq_true] at g1; rw [g1]; simp
      | some dss =>
        have hspec2 := hds.mp ⟨dss, hd, by
          have := LoadCfg.loadUpstreams_mem _ dss hd
          intro x
          have hx := this x
          simp only [List.not_mem_nil, false_or]
          constructor
          · intro h; have : dss.contains x = true := by simpa using h
            rw [hx] at this; simpa using this
          · intro h; have : ((c.domainSets.map (fun t => (t, true))).map (·.1)).contains x = true := by simpa using h
            rw [← hx] at this; simpa using this⟩
        rw [hmap] at hspec2
        obtain ⟨g1, g2, _, _⟩ := hspec2
        simp only [g1, g2, decide_true, Bool.true_and]
        rw [LoadCfg.loadRules_spec]
        -- the tables have exactly the configured tags
        have hu' := LoadCfg.loadUpstreams_mem c.upstreams ups hl
        have hd' := LoadCfg.loadUpstreams_mem _ dss hd
        rw [hmap] at hd'
        congr 1
        funext p
        obtain ⟨d, f⟩ := p
        simp only [hu' f, hd' d]

/-- non-vacuity: a configuration that is accepted and three that are not -/
example : LoadCfg.accepts { upstreams := [("u0", true)], domainSets := ["ds"], rules := [("ds", "u0"), ("", "")], unknownKey := false } = true := by decide
example : LoadCfg.accepts { upstreams := [("u0", true)], domainSets := ["ds"], rules := [("ds", "u1")], unknownKey := false } = false := by decide
example : LoadCfg.accepts { upstreams := [("u0", true), ("u0", true)], domainSets := [], rules := [], unknownKey := false } = false := by decide
example : LoadCfg.accepts { upstreams := [("u0", true)], domainSets := [], rules := [], unknownKey := true } = false := by decide
/-- … and the reject range check: 15 passes, 16 does not -/
example : LoadCfg.acceptsFull { upstreams := [("u0", true)], domainSets := [], rules := [("", "u0"), ("", "")], unknownKey := false, rejects := [0, 15] } = true := by decide
example : LoadCfg.acceptsFull { upstreams := [("u0", true)], domainSets := [], rules := [("", "")], unknownKey := false, rejects := [16] } = false := by decide

/-- tie: the rule scan (first match wins: one `break`), `reverse`, reject-before-forward, REFUSED for
    no rule / no action, strict configuration decoding and the tag checks at start-up. -/
theorem pins :
    Facts.rule_first_break = 1 ∧ Facts.rule_reverse = "matched = !matched" ∧
    Facts.rule_nomatch_cond = "matchedRule == nil" ∧
    Facts.rule_noupstream_cond = "matchedRule.upstream == nil" ∧ Facts.cfg_error_unused = 1 ∧
    Facts.rule_unknown_domain = "m == nil" ∧ Facts.rule_unknown_upstream = "u == nil" ∧
    Facts.ds_dup_tag = "_, dup := r.domainSets[cfg.Tag]" ∧ Facts.up_dup_tag = "_, dup := r.upstreams[cfg.Tag]" := by decide

end MosVerif.C10
