/-
  C05 — Multiplexed upstream replies reach exactly the exchange that asked.

  All theorems quantify over an arbitrary `steps : List Step`, i.e. over every interleaving
  of any number of concurrent exchanges (also more than 65536 on one connection), any number
  of connections, every server behaviour (`srvReply` with any id/payload at any time: out of
  order, duplicated, unsolicited, late; no `srvReply` at all: dropped) and every cancellation /
  connection failure, starting from connections whose id counters are `cfg.base c ≤ 65536`
  (`base = 0`: freshly dialled).  Histories are lists of events, newest first.
-/
import MosVerif.Lemmas.PipelineRun
import MosVerif.Lemmas.PipeFrame
import MosVerif.Lemmas.TranslatedC05
import MosVerif.Generated.Facts
namespace MosVerif.C05
open MosVerif.Pipeline

/-- the state after an arbitrary schedule -/
abbrev after (cfg : Cfg) (steps : List Step) : State := exec cfg (init cfg) steps

variable (cfg : Cfg) (hb : ∀ c, cfg.base c ≤ 65536) (steps : List Step)
include hb

theorem inv_after : Inv cfg (after cfg steps) := inv_exec (inv_init cfg hb) steps
theorem ginv_after : GInv cfg (after cfg steps) := ginv_exec (inv_init cfg hb) (ginv_init cfg) steps

/-- ★ CENTRAL: the observable history of every schedule satisfies the executable specification
    (the same `spec` that judges the implementation's logs in the harness runs). -/
theorem model_meets_spec : spec cfg (after cfg steps).hist = true := (inv_after cfg hb steps).sp

/-- ★ the wire ids handed out on a connection are strictly increasing along every schedule
    (newest first: strictly decreasing). -/
theorem ids_fresh (c : Nat) : (assignedIds c (after cfg steps).hist).Pairwise (· > ·) :=
  mono_exec (inv_init cfg hb) (by intro c; simp [init, assignedIds]) steps c

/-- ★ a wire id is never reused during a connection's life: around any `assign e c id` event
    there is no other assignment of `id` on `c`, neither later nor earlier, to any exchange. -/
theorem id_never_reused (newer older : List Ev) (e c id : Nat)
    (hh : (after cfg steps).hist = newer ++ Ev.assign e c id :: older) (e' : Nat) :
    Ev.assign e' c id ∉ newer ∧ Ev.assign e' c id ∉ older := by
  have hp := ids_fresh cfg hb steps c
  rw [hh, assignedIds_append] at hp
  simp only [assignedIds, if_true] at hp
  rw [List.pairwise_append] at hp
  obtain ⟨_, h2, h3⟩ := hp
  rw [List.pairwise_cons] at h2
  constructor
  · intro hm
    have := h3 id (assignedIds_of_mem hm) id List.mem_cons_self
    omega
  · intro hm
    have := h2.1 id (assignedIds_of_mem hm)
    omega

/-- no wrap-around: the counter never passes 65536 … -/
theorem no_wrap (c : Nat) : ((after cfg steps).conns c).nextQid ≤ 65536 := (inv_after cfg hb steps).nq_le c

/-- … and every id put on the wire fits in 16 bits without truncation. -/
theorem assigned_lt (e c id : Nat) (hm : Ev.assign e c id ∈ (after cfg steps).hist) : id < 65536 := by
  have h1 := (inv_after cfg hb steps).asg_lt e c id hm
  have h2 := no_wrap cfg hb steps c
  omega

omit hb in
/-- after exhaustion `addQueueC` returns end-of-life: nothing is registered, nothing is assigned … -/
theorem eol_after_exhaustion (c e : Nat) (hx : ((after cfg steps).conns c).nextQid = 65536) :
    (step cfg (after cfg steps) (.addQ e c)).hist = (after cfg steps).hist ∧
    (step cfg (after cfg steps) (.addQ e c)).pcs = (after cfg steps).pcs ∧
    ((step cfg (after cfg steps) (.addQ e c)).conns c).queue = ((after cfg steps).conns c).queue ∧
    ((step cfg (after cfg steps) (.addQ e c)).conns c).nextQid = 65536 := by
  generalize after cfg steps = s at hx ⊢
  have hgt : ¬ (s.conns c).nextQid ≤ 65535 := by omega
  simp only [step]
  split
  · split
    · rename_i c' hadd
      obtain ⟨_, a2, a3, _⟩ := addQueueC_none hadd
      exact ⟨rfl, rfl, by simp [a3], by simp [a2, hx]⟩
    · rename_i c' q hadd
      exact absurd (addQueueC_some hadd).1 hgt
  · exact ⟨rfl, rfl, rfl, hx⟩

/-- … for ever: whatever happens afterwards, the counter stays and no id is handed out on `c`. -/
theorem exhausted_forever (c : Nat) (hx : ((after cfg steps).conns c).nextQid = 65536) (more : List Step) :
    ((exec cfg (after cfg steps) more).conns c).nextQid = 65536 ∧
    assignedIds c (exec cfg (after cfg steps) more).hist = assignedIds c (after cfg steps).hist :=
  exhausted_exec (inv_after cfg hb steps) c hx more

/-- ★ an exchange that returns a message returns a reply the server sent — after the exchange was
    given its wire id — on that connection with that wire id, and the caller's ID is restored:
    the history (newest first) has the shape
    `… ret e (ID, p) :: l1 ++ reply c id p :: l2 ++ assign e c id :: …` with `ID = cid e`
    and no other wire id given to `e` in between. -/
theorem delivered_matches (newer older : List Ev) (e mid p : Nat)
    (hh : (after cfg steps).hist = newer ++ Ev.ret e (some (mid, p)) :: older) :
    mid = cfg.cid e ∧
    ∃ c id l1 l2 l3, older = l1 ++ Ev.reply c id p :: (l2 ++ Ev.assign e c id :: l3) ∧
      (∀ c' id', Ev.assign e c' id' ∉ l1) ∧ (∀ c' id', Ev.assign e c' id' ∉ l2) := by
  have hs := model_meets_spec cfg hb steps
  rw [hh] at hs
  have hs' := spec_suffix newer _ hs
  simp only [spec, okEv, Bool.and_eq_true, beq_iff_eq] at hs'
  obtain ⟨⟨⟨_, hmid⟩, hrest⟩, _⟩ := hs'
  refine ⟨hmid, ?_⟩
  cases hc : curAssign e older with
  | none => simp [hc] at hrest
  | some ci =>
    obtain ⟨c, id⟩ := ci
    simp only [hc] at hrest
    obtain ⟨l1, l2, l3, h1, h2, h3⟩ := since_shape hc hrest
    exact ⟨c, id, l1, l2, l3, h1, h2, h3⟩

/-- ★ no reply satisfies two exchanges: a reply event (index `k`) is received by at most one
    exchange (`taken` records every receive on a channel) … -/
theorem no_double_delivery (e e' k : Nat) (h1 : (e, k) ∈ (after cfg steps).taken)
    (h2 : (e', k) ∈ (after cfg steps).taken) : e = e' := (ginv_after cfg hb steps).tk_inj e e' k h1 h2

/-- … an exchange receives at most one reply … -/
theorem one_reply_per_exchange (e k k' : Nat) (h1 : (e, k) ∈ (after cfg steps).taken)
    (h2 : (e, k') ∈ (after cfg steps).taken) : k = k' := (ginv_after cfg hb steps).tk_one e k k' h1 h2

/-- … what it received is a reply event whose payload is the one it returns (with its own ID) … -/
theorem taken_is_a_reply (e k : Nat) (h : (e, k) ∈ (after cfg steps).taken) :
    ∃ c id p, evAt (after cfg steps).hist k = some (.reply c id p) ∧
      ((after cfg steps).pcs e = .leaving c id (some p) ∨
       ((after cfg steps).pcs e = .done ∧ Ev.ret e (some (cfg.cid e, p)) ∈ (after cfg steps).hist)) :=
  (ginv_after cfg hb steps).tk_ev e k h

/-- … and every returned message was received that way. Together: two exchanges that return
    messages consumed two different reply events. -/
theorem returned_message_was_taken (e mid p : Nat) (h : Ev.ret e (some (mid, p)) ∈ (after cfg steps).hist) :
    ∃ k c id, (e, k) ∈ (after cfg steps).taken ∧ evAt (after cfg steps).hist k = some (.reply c id p) :=
  (ginv_after cfg hb steps).ret_tk e mid p h

/-- the owner of a (connection, wire id) pair is unique -/
theorem assignment_unique (e e' c id : Nat) (h1 : Ev.assign e c id ∈ (after cfg steps).hist)
    (h2 : Ev.assign e' c id ∈ (after cfg steps).hist) : e = e' :=
  spec_assign_unique (model_meets_spec cfg hb steps) h1 h2

/-- ★ a late reply is harmless: if `(c, id)` was given to exchange `e` and `e` is no longer
    registered or waiting under it (it was cancelled, failed, returned, or its entry was removed),
    then a reply for `(c, id)` arriving now (reply event index = current history length) is received
    by no exchange, whatever happens afterwards — in particular not by a later exchange. -/
theorem late_reply_harmless (e c id p : Nat) (hasg : Ev.assign e c id ∈ (after cfg steps).hist)
    (hleft : ∀ ch, (after cfg steps).pcs e ≠ .registered c id ch ∧ (after cfg steps).pcs e ≠ .waiting c id ch)
    (more : List Step) (e' : Nat) :
    (e', (after cfg steps).hist.length) ∉ (exec cfg (after cfg steps) (.srvReply c id p :: more)).taken := by
  have hi := inv_after cfg hb steps
  have hno : ∀ e'' ch, (after cfg steps).pcs e'' ≠ .registered c id ch ∧ (after cfg steps).pcs e'' ≠ .waiting c id ch := by
    intro e'' ch
    constructor
    · intro hp
      have := assignment_unique cfg hb steps e e'' c id hasg (curAssign_mem (hi.cur_reg e'' c id ch hp))
      subst this; exact (hleft ch).1 hp
    · intro hp
      have := assignment_unique cfg hb steps e e'' c id hasg (curAssign_mem (hi.cur_wait e'' c id ch hp))
      subst this; exact (hleft ch).2 hp
  have hd := dormant_of_no_waiter hi (ginv_after cfg hb steps) c id p hno
  exact (dormant_exec hd more).1 e'

/-- a reply whose (connection, id) was never handed out is received by nobody either -/
theorem unsolicited_harmless (c id p : Nat) (hnever : ∀ e, Ev.assign e c id ∉ (after cfg steps).hist)
    (more : List Step) (e' : Nat) :
    (e', (after cfg steps).hist.length) ∉ (exec cfg (after cfg steps) (.srvReply c id p :: more)).taken := by
  have hi := inv_after cfg hb steps
  have hno : ∀ e'' ch, (after cfg steps).pcs e'' ≠ .registered c id ch ∧ (after cfg steps).pcs e'' ≠ .waiting c id ch := by
    intro e'' ch
    exact ⟨fun hp => hnever e'' (curAssign_mem (hi.cur_reg e'' c id ch hp)),
           fun hp => hnever e'' (curAssign_mem (hi.cur_wait e'' c id ch hp))⟩
  exact (dormant_exec (dormant_of_no_waiter hi (ginv_after cfg hb steps) c id p hno) more).1 e'

omit hb

/-- a reply with an unknown id, or for a channel whose buffer is occupied, is discarded: only the
    history records it. -/
theorem unknown_or_duplicate_discarded (s : State) (c id p : Nat)
    (h : qget id (s.conns c).queue = none ∨
         ∃ ch p' k, qget id (s.conns c).queue = some ch ∧ s.chans ch = .full p' k) :
    step cfg s (.srvReply c id p) = { s with hist := .reply c id p :: s.hist } := by
  rcases h with h | ⟨ch, p', k, h1, h2⟩
  · simp [step, h]
  · simp [step, h1, h2]

/-- `Reserve` touches nothing but `reserved` -/
theorem reserve_only_reserved (c : Conn) :
    c.reserve.nextQid = c.nextQid ∧ c.reserve.queue = c.queue ∧ c.reserve.closed = c.closed :=
  ⟨reserve_nextQid c, reserve_queue c, reserve_closed c⟩

/-- `Status().Available` implies that an immediate `addQueueC` gets an id -/
theorem available_gets_id (c : Conn) (ch : Nat) (h : c.status.2 = true) : (c.addQueueC ch).2 = some c.nextQid := by
  simp only [Conn.status, decide_eq_true_eq] at h
  have hm : c.nextQid % 65536 = c.nextQid := Nat.mod_eq_of_lt (by omega)
  have hle : ¬ c.nextQid > 65535 := by omega
  unfold Conn.addQueueC
  by_cases hr : c.reserved > 0 <;> simp [hr, hm, hle]

/-! ### the executable script-level model is one of the schedules

  `mvmodel` replays a harness script with `runOps` (Model/Pipeline.lean), following the pool's
  choices visible in the implementation's log `gs`. Whatever that log says, every state it goes
  through is reached by steps of the model from the state left by the prefix, hence satisfies the
  invariants and the specification. -/

/-- the states of a script run are reached by steps -/
theorem script_runs_steps (cfg : Cfg) (known : List Nat) (r : RunSt) (ops : List Op) (gs : List (List Tok)) :
    ∀ s ∈ runStates cfg known r ops gs, ∃ steps, s = exec cfg r.s steps :=
  runStates_reach cfg known r ops gs

/-- ★ … and their histories satisfy the specification; ids are handed out in increasing order; no reply
    event is received twice. (`pre`: length of the prefix, `cids`: caller IDs of the script's exchanges.) -/
theorem script_model_sound (cids : List (Nat × Nat)) (pre : Nat) (tcp : Bool) (known : List Nat) (ops : List Op)
    (gs : List (List Tok)) :
    let pconns := preRun pre []
    let cfg := scriptCfg cids pconns
    ∀ s ∈ runStates cfg known (scriptRun pconns tcp) ops gs,
      spec cfg s.hist = true ∧ (∀ c, (assignedIds c s.hist).Pairwise (· > ·)) ∧
      (∀ e e' k, (e, k) ∈ s.taken → (e', k) ∈ s.taken → e = e') := by
  intro pconns cfg s hs
  obtain ⟨steps, rfl⟩ := runStates_reach cfg known _ ops gs s hs
  obtain ⟨hi, hg⟩ := scriptInit_inv cids pre
  exact ⟨(inv_exec hi steps).sp,
         mono_exec hi (by intro c; simp [scriptInit, assignedIds]) steps,
         (ginv_exec hi hg steps).tk_inj⟩

/-! ### framing: a `srvReply` step is a whole frame the server sent

  The step model takes for granted that what the read loop dispatches (`srvReply c id p`) is a message
  the server sent. On a pipelined TCP/DoT connection that is a property of the read loop's framing
  (Model/PipeFrame.lean): for every list of frames, every way the network cuts their bytes into chunks
  and every placement of read errors (deadline = idle timeout, also in the middle of a frame): -/

/-- ★ the messages dispatched are a prefix of the frames the server sent — never something
    reconstructed from the inside of a frame — … -/
theorem frames_dispatched_prefix (frames : List PipeFrame.Bytes) (evs : List PipeFrame.REv)
    (h : PipeFrame.received evs <+: PipeFrame.stream frames) : (PipeFrame.run {} evs).out <+: frames := by
  have h0 : PipeFrame.Inv frames [] {} := by
    show PipeFrame.Good frames [] [] []
    exact ⟨0, rfl, Nat.zero_le _, rfl⟩
  have := PipeFrame.run_inv frames evs [] {} h0 (by simpa using h)
  exact PipeFrame.inv_out_prefix this

/-- … and after a read error the loop never dispatches anything again (it does not resume reading,
    in particular not at a non-frame boundary). -/
theorem no_dispatch_after_read_error (evs1 evs2 : List PipeFrame.REv) :
    (PipeFrame.run {} (evs1 ++ .readErr :: evs2)).out = (PipeFrame.run {} evs1).out := by
  have e : PipeFrame.run {} (evs1 ++ .readErr :: evs2) =
      PipeFrame.run (PipeFrame.rstep (PipeFrame.run {} evs1) .readErr) evs2 := by
    simp [PipeFrame.run, List.foldl_append]
  rw [e, (PipeFrame.closed_run _ (by simp [PipeFrame.rstep]) evs2).2]
  rfl

/-- non-vacuity: a loop that goes on reading after a deadline error inside a frame (`rstepResume`)
    dispatches a message the server never sent: here the frame `[9,9,0,1,7]`, cut after its fourth
    byte, makes it dispatch `[7]`. -/
example : (([PipeFrame.REv.recv [0, 5, 9, 9], .readErr, .recv [0, 1, 7]] : List PipeFrame.REv).foldl
    PipeFrame.rstepResume {}).out = [[7]] := by decide
example : (PipeFrame.run {} [.recv [0, 5, 9, 9], .readErr, .recv [0, 1, 7]]).out = [] := by decide
example : (PipeFrame.run {} [.recv [0, 5, 9], .recv [9, 0, 1, 7, 0, 1], .recv [4]]).out = [[9, 9, 0, 1, 7], [4]] := by decide

/-! ### non-vacuity -/

section examples
def cfg0 : Cfg := ⟨fun e => 100 + e, fun _ => 0⟩

/-- a schedule in which two exchanges are answered out of order, with a duplicate and an unsolicited reply -/
def demo : List Step :=
  [.addQ 0 0, .write 0 true false, .addQ 1 0, .write 1 true false,
   .srvReply 0 7 50, .srvReply 0 1 51, .take 1, .srvReply 0 1 51, .delQ 1,
   .srvReply 0 0 52, .take 0, .delQ 0, .srvReply 0 0 52]

example : (after cfg0 demo).hist =
    [.reply 0 0 52, .ret 0 (some (100, 52)), .reply 0 0 52, .ret 1 (some (101, 51)), .reply 0 1 51, .reply 0 1 51,
     .reply 0 7 50, .query 1 0 1, .assign 1 0 1, .query 0 0 0, .assign 0 0 0] := by decide
example : (after cfg0 demo).taken = [(0, 8), (1, 5)] := by decide

/-- the last id of a connection, then end of life -/
def cfgLast : Cfg := ⟨fun e => e, fun _ => 65535⟩
example : (after cfgLast [.addQ 0 0, .addQ 1 0, .write 0 true false, .cancel 0, .delQ 0]).hist =
    [.query 0 0 65535, .assign 0 0 65535] := by decide
example : ((after cfgLast [.addQ 0 0, .addQ 1 0, .write 0 true false, .cancel 0, .delQ 0]).conns 0).closed = true := by
  decide

/-- the specification rejects: a reply routed to the wrong exchange, -/
example : spec cfg0 [.ret 0 (some (100, 51)), .reply 0 1 51, .query 1 0 1, .assign 1 0 1, .query 0 0 0, .assign 0 0 0]
    = false := by decide
/-- the wire ID left in the returned message, -/
example : spec cfg0 [.ret 0 (some (0, 51)), .reply 0 0 51, .query 0 0 0, .assign 0 0 0] = false := by decide
/-- a reused wire id, -/
example : spec cfg0 [.assign 1 0 0, .ret 0 none, .query 0 0 0, .assign 0 0 0] = false := by decide
/-- a reply that was sent before the id was handed out (late reply to an earlier owner), -/
example : spec cfg0 [.ret 1 (some (101, 51)), .assign 1 0 1, .reply 0 1 51] = false := by decide
/-- one reply returned by two exchanges, -/
example : spec cfg0 [.ret 1 (some (101, 51)), .ret 0 (some (100, 51)), .reply 0 0 51, .query 1 0 1, .assign 1 0 1,
    .query 0 0 0, .assign 0 0 0] = false := by decide
/-- a reply on another connection, -/
example : spec cfg0 [.ret 0 (some (100, 51)), .reply 1 0 51, .query 0 0 0, .assign 0 0 0] = false := by decide
/-- and accepts the correct history. -/
example : spec cfg0 [.ret 0 (some (100, 51)), .reply 0 0 51, .query 0 0 0, .assign 0 0 0] = true := by decide
end examples

/-- tie by translation (Lemmas/TranslatedC05.lean): the model's `Conn` operations are, for all arguments, the
    operations assembled from the mechanical translation of the current Go source — the `reserved` decrement, the
    end-of-life test, `qid := uint16(c.nextQid)` and `c.nextQid++` of `addQueueC`; `eol := c.nextQid > 65535 &&
    len(c.queue) == 0` of `deleteQueueC`; `Status().Available`; `Reserve()`. -/
theorem conn_ops_are_the_translated_source (c : Conn) (ch qid : Nat) (a : Bool) :
    c.addQueueC ch =
      (let c := { c with reserved := Translated.c05_addQ_reserved c.reserved }
       if Translated.c05_addQ_eol c.nextQid then (c, none)
       else
         let qid := Translated.c05_addQ_qid c.nextQid
         ({ c with nextQid := Translated.c05_addQ_next c.nextQid, queue := qput qid ch c.queue }, some qid)) ∧
    c.deleteQueueC qid =
      (let q := qdel qid c.queue
       { c with queue := q, closed := c.closed || Translated.c05_delQ_eol c.nextQid q.length }) ∧
    c.status = (c.closed, Translated.c05_status_avail a c.nextQid c.reserved) ∧
    c.reserve = { c with reserved := Translated.c05_reserve c.nextQid c.reserved } :=
  ⟨addQueueC_translated c ch, deleteQueueC_translated c qid, status_translated c a, reserve_translated c⟩

/-- tie (pinned source facts; the integer logic is tied by translation, see above): the map
    operations keyed by the wire id, channel capacity 1, the non-blocking send with `default`, the
    deferred delete, the ID restore from the caller's bytes, where `setQid` writes, close-on-read-error. -/
theorem pins :
    Facts.pipe_queuePut = "c.queue[uint32(qid)] = respChan" ∧
    Facts.pipe_chanCap = "respChan := make(chan *dnsmsg.Msg, 1)" ∧
    Facts.pipe_deferDelete = "defer c.deleteQueueC(qid)" ∧
    Facts.pipe_idRestore = "r.Header.ID = binary.BigEndian.Uint16(m)" ∧
    Facts.pipe_recv = "r := <-respChan" ∧
    Facts.pipe_lookup = "resChan := c.getQueueC(r.Header.ID)" ∧
    Facts.pipe_nbSelect = "select { case resChan <- r: default: dnsmsg.ReleaseMsg(r) }" ∧
    Facts.pipe_getQueueC = "return c.queue[uint32(qid)]" ∧
    Facts.pipe_delete = "delete(c.queue, uint32(qid))" ∧
    Facts.pipe_setQidTcp = "setQid(b, 2, qid)" ∧
    Facts.pipe_setQidUdp = "setQid(bb, 0, qid)" ∧
    Facts.pipe_setQidBody = "binary.BigEndian.PutUint16(payload[off:], qid)" := by decide

/-- tie: every read error ends the read loop with the connection closed (`closeWithErr … return`); the only
    `continue`s of the loop are the two of the datagram branch. -/
theorem pins_read_error_closes :
    Facts.pipe_readErrClose = "if err != nil { if errors.Is(err, os.ErrDeadlineExceeded) { err = ErrIdleTimeOut } c.closeWithErr(fmt.Errorf(\"read err, %w\", err)) return }" ∧
    Facts.pipe_readLoopContinues = 2 := ⟨rfl, rfl⟩

end MosVerif.C05
