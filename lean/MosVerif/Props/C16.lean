/-
  C16 — A truncated UDP upstream reply is retried over TCP.
  Property theorems (helper lemmas, if any, live in MosVerif/Lemmas).
-/
import MosVerif.Model.Fallback
import MosVerif.Lemmas.TranslatedC16
import MosVerif.Generated.Facts
namespace MosVerif.C16
open MosVerif.Fallback

/-- ★ TC ⇒ the TCP leg is used exactly once, with the same query, and the caller
    receives the TCP outcome. -/
theorem tc_goes_tcp (q tag : Nat) (t : Leg) :
    exchange q (.msg tag true) t = ⟨t, 1, some q⟩ := rfl

/-- ★ the truncated UDP message itself is never what the caller gets
    (unless the TCP leg independently produced the very same message). -/
theorem never_truncated_udp (q tag : Nat) (t : Leg) (h : t ≠ .msg tag true) :
    (exchange q (.msg tag true) t).result ≠ .msg tag true := by
  simpa [exchange] using h

/-- ★ no TC ⇒ returned as received and no TCP attempt. -/
theorem no_tc_no_tcp (q tag : Nat) (t : Leg) :
    exchange q (.msg tag false) t = ⟨.msg tag false, 0, none⟩ := rfl

/-- a failed UDP exchange is reported, TCP is not tried. -/
theorem udp_err_propagates (q : Nat) (t : Leg) :
    exchange q .err t = ⟨.err, 0, none⟩ := rfl

/-- ★ the model satisfies the executable specification used as the oracle
    for the implementation's observed outcomes — for every query and every
    behaviour of the two legs. -/
theorem model_meets_spec (q : Nat) (u t : Leg) : spec q u t (exchange q u t) = true := by
  cases u with
  | err => rfl
  | msg tag tc =>
    cases tc
    · simp [spec, exchange]
    · simp [spec, exchange]

/-- ★ a run of truncated replies: every caller gets the (non-truncated) TCP reply -/
theorem seq_all_tcp (k : Nat) : ∀ l ∈ seqModel k, ∃ tag, l = .msg tag false := by
  intro l hl
  simp only [seqModel, List.mem_map, List.mem_range] at hl
  obtain ⟨i, _, rfl⟩ := hl
  exact ⟨2000 + i, rfl⟩

/-- ★ the upstream has no memory of a failed TCP leg: in a run of truncated replies during which the TCP server
    fails the first `f` exchanges, exactly those callers get an error and every later caller gets the TCP reply. -/
theorem seq_recovers (f k i : Nat) (hi : i < k) :
    (seqModelF f k)[i]? = some (if i < f then .err else .msg (2000 + i) false) := by
  simp only [seqModelF, List.getElem?_map, List.getElem?_range hi, Option.map_some]
  by_cases h : i < f <;> simp [exchange, h]

theorem seqModelF_zero (k : Nat) : seqModelF 0 k = seqModel k := by
  simp [seqModelF, seqModel]

/-- the specification is not vacuous: it rejects returning the truncated message. -/
example : spec 7 (.msg 1 true) (.msg 2 false) ⟨.msg 1 true, 0, none⟩ = false := by decide
example : spec 7 (.msg 1 true) (.msg 2 false) ⟨.msg 2 false, 1, some 7⟩ = true := by decide
/-- and it rejects an unnecessary TCP attempt. -/
example : spec 7 (.msg 1 false) .err ⟨.msg 1 false, 1, some 7⟩ = false := by decide

/-- tie (pinned source facts): the TCP leg is called with the same context and the same payload `q`.
    That the branch tests the header's TC bit, and the header-only TC test of `ReadMsgFromUDP`, are tied by
    translation (Lemmas/TranslatedC16.lean: `exchange_translated`, `udpTcHeaderOnly_translated`). -/
theorem pins :
    Facts.fallback_tcpCall = "return u.t.ExchangeContext(ctx, q)" ∧
    Facts.fallback_udpCall = "r, err := u.u.ExchangeContext(ctx, q)" ∧
    -- both legs dial the same address
    Facts.fallback_udpDial = "return dialer.DialContext(ctx, \"udp\", dialAddr)" ∧
    Facts.fallback_tcpDial = "return dialer.DialContext(ctx, \"tcp\", dialAddr)" := by decide

end MosVerif.C16
