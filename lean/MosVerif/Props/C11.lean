/-
  C11 — Domain sets match by label suffix, independent of load order.
  Property theorems; helper lemmas live in MosVerif/Lemmas/{TrieLemmas,TextLemmas,MixLemmas}.lean.
-/
import MosVerif.Model.DomainSet
import MosVerif.Lemmas.TrieLemmas
import MosVerif.Lemmas.TextLemmas
import MosVerif.Lemmas.ReadableLemmas
import MosVerif.Lemmas.MixLemmas
import MosVerif.Lemmas.TranslatedC11
import MosVerif.Generated.Facts
namespace MosVerif.C11
open MosVerif.Text MosVerif.Trie MosVerif.DomainSet

/-! ## the trie -/

/-- the `DomainMatcher` after `Add`ing the entries in the given order. -/
def build (es : List (List Label)) : DM := es.foldl DM.add {}

/-- ★ one-step refinement: after `Add e` exactly the names matched before, plus the names
    that have `e` as a label-wise suffix, match.  (`e` without empty labels; `e = []` is the root.) -/
theorem match_add (m : DM) (e : List Label) (hwf : WF e) (q : List Label) :
    (m.add e).matchLabels q = true ↔ (m.matchLabels q = true ∨ e <:+ q) :=
  matchLabels_add m e hwf q

theorem match_foldl (es : List (List Label)) (hwf : ∀ e ∈ es, WF e) (m : DM) (q : List Label) :
    (es.foldl DM.add m).matchLabels q = true ↔ (m.matchLabels q = true ∨ ∃ e ∈ es, e <:+ q) := by
  induction es generalizing m with
  | nil => simp
  | cons e rest ih =>
    rw [List.foldl_cons, ih (fun x hx => hwf x (by simp [hx])), match_add m e (hwf e (by simp))]
    simp only [List.mem_cons, exists_eq_or_imp]
    exact or_assoc

/-- ★ a set built from any entry list (in that order) matches `q` iff some entry is a
    label-wise suffix of `q` (the root entry `[]` is a suffix of everything). -/
theorem match_spec (es : List (List Label)) (hwf : ∀ e ∈ es, WF e) (q : List Label) :
    (build es).matchLabels q = true ↔ ∃ e ∈ es, e <:+ q := by
  unfold build
  rw [match_foldl es hwf]
  simp [DM.matchLabels, matchWalk_empty]

/-- ★ the result depends only on the SET of entries: any reordering, any duplication. -/
theorem order_independent (es es' : List (List Label)) (hwf : ∀ e ∈ es, WF e)
    (hset : ∀ e, e ∈ es ↔ e ∈ es') (q : List Label) :
    (build es).matchLabels q = (build es').matchLabels q := by
  have hwf' : ∀ e ∈ es', WF e := fun e he => hwf e ((hset e).mpr he)
  rw [Bool.eq_iff_iff, match_spec es hwf, match_spec es' hwf']
  constructor <;> rintro ⟨e, he, hs⟩
  · exact ⟨e, (hset e).mp he, hs⟩
  · exact ⟨e, (hset e).mpr he, hs⟩

/-- ★ in particular every permutation of the entries gives the same set. -/
theorem perm_independent (es es' : List (List Label)) (hwf : ∀ e ∈ es, WF e) (hp : es.Perm es')
    (q : List Label) : (build es).matchLabels q = (build es').matchLabels q :=
  order_independent es es' hwf (fun _ => hp.mem_iff) q

/-- ★ adding an entry (at any moment, to any matcher) never un-matches a name. -/
theorem monotone (m : DM) (e : List Label) (hwf : WF e) (q : List Label)
    (h : m.matchLabels q = true) : (m.add e).matchLabels q = true :=
  (match_add m e hwf q).mpr (Or.inl h)

/-- non-vacuity: `com` then `a.com` (the D4 order) — `com`, `b.com` and `a.com` match, `org` does not. -/
example : (build [[[99]], [[97], [99]]]).matchLabels [[99]] = true := by decide
example : (build [[[99]], [[97], [99]]]).matchLabels [[98], [99]] = true := by decide
example : (build [[[97], [99]], [[99]]]).matchLabels [[98], [99]] = true := by decide
example : (build [[[97], [99]]]).matchLabels [[98], [99]] = false := by decide
example : (build [[[99]], [[97], [99]]]).matchLabels [[111]] = false := by decide
/-- label `a` against the name `a\x00` (D5). -/
example : (build [[[97]]]).matchLabels [[97, 0]] = false := by decide
example : WF [[99]] := by simp [WF]

/-- ★ the same on the wire: `DomainMatcher.Match(n)` for the wire form of any well-formed name. -/
theorem match_wire (es : List (List Label)) (hwf : ∀ e ∈ es, WF e) (q : List Label)
    (hg : GoodLabels q) (hw : wireLen q ≤ 254) :
    (build es).match (encode q) = true ↔ ∃ e ∈ es, e <:+ q := by
  rw [dm_match_encode _ q hg hw]
  exact match_spec es hwf q

/-! ## the map key -/

/-- ★ `shortLabelKey` / `string(label)` — the pair (which map, key) is injective on ALL labels,
    so two different labels never share a trie edge. -/
theorem keyOf_injective (a b : Label) (h : keyOf a = keyOf b) : a = b :=
  Trie.keyOf_injective a b h

/-- the key is 24 octets wide and carries the length in its last octet. -/
theorem shortKey_shape (l : Label) (h : l.length < 24) :
    (shortLabelKey l).length = 24 ∧ (shortLabelKey l).getLast? = some (UInt8.ofNat l.length) := by
  have ht : (l.take 23).length = l.length := by simp; omega
  constructor
  · simp only [shortLabelKey, keyWidth, List.length_append, List.length_replicate, ht,
      List.length_cons, List.length_nil]
    omega
  · simp [shortLabelKey]

/-- D5 witnesses: `a` and `a\x00`; a 23-octet and a 24-octet label with the same first 23 octets. -/
example : keyOf [97] ≠ keyOf [97, 0] := by decide
example : keyOf (List.replicate 23 97) ≠ keyOf (List.replicate 24 97) := by decide
example : keyOf (List.replicate 24 97) = .long (List.replicate 24 97) := by decide

/-! ## the text form -/

/-- ★ `ToReadable` of a well-formed name is the text form of the property … -/
theorem text_spec (ls : List Label) (hg : GoodLabels ls) (hw : wireLen ls ≤ 254) :
    toReadable (encode ls) = some (specText ls) :=
  toReadable_encode ls hg hw

/-- … the labels joined by single dots, the root being `.` … -/
theorem text_shape :
    specText [] = [46] ∧
    (∀ l : Label, specText [l] = l.flatMap specEscape) ∧
    (∀ (l l' : Label) (rest : List Label),
      specText (l :: l' :: rest) = l.flatMap specEscape ++ 46 :: specText (l' :: rest)) := by
  refine ⟨rfl, fun l => by simp [specText, joinDots], fun l l' rest => by simp [specText, joinDots]⟩

/-- … where letters, digits and the hyphen stand for themselves, -/
theorem escape_ldh (b : UInt8)
    (h : (97 ≤ b.toNat ∧ b.toNat ≤ 122) ∨ (65 ≤ b.toNat ∧ b.toNat ≤ 90) ∨
      (48 ≤ b.toNat ∧ b.toNat ≤ 57) ∨ b.toNat = 45) : escapeByte b = [b] := by
  rw [escapeByte_eq_spec]; simp [specEscape, h]

/-- `.` is `\.`, -/
theorem escape_dot : escapeByte 46 = [92, 46] := by decide

/-- `\` is `\\`, -/
theorem escape_backslash : escapeByte 92 = [92, 92] := by decide

/-- and every other octet is `\DDD`, three decimal digits, most significant first. -/
theorem escape_other (b : UInt8)
    (h : ¬ ((97 ≤ b.toNat ∧ b.toNat ≤ 122) ∨ (65 ≤ b.toNat ∧ b.toNat ≤ 90) ∨
      (48 ≤ b.toNat ∧ b.toNat ≤ 57) ∨ b.toNat = 45)) (hd : b ≠ 46) (hb : b ≠ 92) :
    ∃ d2 d1 d0 : Nat, d2 < 10 ∧ d1 < 10 ∧ d0 < 10 ∧ b.toNat = 100 * d2 + 10 * d1 + d0 ∧
      escapeByte b = [92, UInt8.ofNat (48 + d2), UInt8.ofNat (48 + d1), UInt8.ofNat (48 + d0)] := by
  have hd' : ¬ b.toNat = 46 := fun e => hd (UInt8.toNat_inj.mp (by simpa using e))
  have hb' : ¬ b.toNat = 92 := fun e => hb (UInt8.toNat_inj.mp (by simpa using e))
  have hlt := b.toNat_lt
  refine ⟨b.toNat / 100, b.toNat / 10 % 10, b.toNat % 10, by omega, by omega, by omega, by omega, ?_⟩
  rw [escapeByte_eq_spec]; simp [specEscape, h, hd', hb']

/-- D6 witness: the label `a\x01` reads `a\001`, not `a1`. -/
example : toReadable [2, 97, 1] = some [97, 92, 48, 48, 49] := by decide
example : toReadable [1, 46, 1, 92] = some [92, 46, 46, 92, 92] := by decide

/-- ★ different well-formed names have different text forms (so a `regexp:` entry can tell
    any two names apart, and `a\x01` is not confused with `a1`). -/
theorem text_injective (a b : List Label) (ha : GoodLabels a) (hwa : wireLen a ≤ 254)
    (hb : GoodLabels b) (hwb : wireLen b ≤ 254)
    (h : toReadable (encode a) = toReadable (encode b)) : a = b := by
  rw [text_spec a ha hwa, text_spec b hb hwb] at h
  exact specText_injective a b ha hb (Option.some.inj h)

/-! ## names on the wire -/

/-- the scanner inverts the wire form, and only accepts wire forms of well-formed names. -/
theorem scan_iff (n : Bytes) (ls : List Label) :
    scan n = some ls ↔ (n = encode ls ∧ GoodLabels ls ∧ wireLen ls ≤ 254) :=
  ⟨scan_sound n ls, fun ⟨h1, h2, h3⟩ => h1 ▸ scan_encode ls h2 h3⟩

/-- `ToLowerName` lower-cases every label and nothing else. -/
theorem toLower_spec (ls : List Label) (hg : GoodLabels ls) (hw : wireLen ls ≤ 254) :
    toLowerName (encode ls) = encode (ls.map lowerLabel) :=
  toLowerName_encode ls hg hw

/-- whatever text `ParseReadable` accepts, the builder holds the wire form of labels of
    1..63 octets (253 octets at most) and the entry stored is their lower-cased form. -/
theorem parse_always_scans (x : Bytes) (b : Builder) (h : parseReadable x = some b) :
    ∃ ls, GoodLabels ls ∧ wireLen ls ≤ 253 ∧ b.data = encode ls ∧
      scan (toLowerName b.data) = some (ls.map lowerLabel) :=
  parseReadable_scans x b h

/-- ★ on a well-formed entry name (`specName`: pieces between dots of 1..63 octets, at most 253
    octets, optional final dot, empty or `.` = root) `ParseReadable` + `ToLowerName` yield exactly
    its lower-cased labels. -/
theorem parse_spec (x : Bytes) (ls : List Label) (h : specName x = some ls) :
    ∃ b, parseReadable x = some b ∧ toLowerName b.data = encode ls ∧ GoodLabels ls ∧
      wireLen ls ≤ 253 :=
  parseReadable_spec x ls h

example : specName [65, 46, 98, 46] = some [[97], [98]] := by decide          -- "A.b."
example : specName [97, 46, 46, 98] = none := by decide                      -- "a..b"
/-- the `i > 0` quirk: `a..b` is accepted with the label `.b`. -/
example : (parseReadable [97, 46, 46, 98]).map (·.data) = some [1, 97, 2, 46, 98] := by decide

/-! ## the whole matcher -/

/-- the `MixMatcher` after the given files / `Add` calls. -/
def loaded (re : Re) (gs : List Group) : Mix := (runGroups re {} gs).1

/-- ★ for ANY regular-expression engine and ANY sequence of files and `Add` calls whose lines are
    well-formed entries, comments or blank: every load succeeds and `MixMatcher.Match` on the wire
    form of ANY well-formed name is the declarative `specMatch` over the entries. -/
theorem mix_loaded (re : Re) (gs : List Group) (es : List Entry)
    (h : specEntries re gs = some es) :
    (runGroups re {} gs).2 = gs.map allLoaded ∧
    ∀ q, GoodLabels q → wireLen q ≤ 254 → (loaded re gs).match re (encode q) = specMatch re es q := by
  obtain ⟨m', hm, hs⟩ := runGroups_sem re gs es h {} [] (sem_empty re)
  unfold loaded
  rw [hm]
  simp only [List.nil_append] at hs
  exact ⟨rfl, hs⟩

/-- ★ … i.e. iff some `full:` entry equals the name, or some `domain:`/bare entry is a label-wise
    suffix of it, or some `regexp:` entry matches its text form. -/
theorem mix_spec (re : Re) (gs : List Group) (es : List Entry) (h : specEntries re gs = some es)
    (q : List Label) (hg : GoodLabels q) (hw : wireLen q ≤ 254) :
    (loaded re gs).match re (encode q) = true ↔
      ((.full q) ∈ es ∨ (∃ n, .domain n ∈ es ∧ n <:+ q) ∨
        (∃ p, .regexp p ∈ es ∧ re.isMatch p (specText q) = true)) := by
  rw [(mix_loaded re gs es h).2 q hg hw, specMatch, List.any_eq_true]
  constructor
  · rintro ⟨e, he, hm⟩
    cases e with
    | full n =>
      simp only [entryMatches, beq_iff_eq] at hm
      exact Or.inl (hm ▸ he)
    | domain n =>
      exact Or.inr (Or.inl ⟨n, he, List.isSuffixOf_iff_suffix.mp hm⟩)
    | regexp p => exact Or.inr (Or.inr ⟨p, he, hm⟩)
  · rintro (h1 | ⟨n, hn, hs⟩ | ⟨p, hp, hm⟩)
    · exact ⟨_, h1, by simp [entryMatches]⟩
    · exact ⟨_, hn, List.isSuffixOf_iff_suffix.mpr hs⟩
    · exact ⟨_, hp, hm⟩

/-- ★ the result depends only on the SET of entries: not on their order, their multiplicity,
    the files they came from or the way they were added. -/
theorem mix_order_independent (re : Re) (gs gs' : List Group) (es es' : List Entry)
    (h : specEntries re gs = some es) (h' : specEntries re gs' = some es')
    (hset : ∀ e, e ∈ es ↔ e ∈ es') (q : List Label) (hg : GoodLabels q) (hw : wireLen q ≤ 254) :
    (loaded re gs).match re (encode q) = (loaded re gs').match re (encode q) := by
  rw [Bool.eq_iff_iff, mix_spec re gs es h q hg hw, mix_spec re gs' es' h' q hg hw]
  simp only [hset]

/-- ★ loading more (another file, another `Add`) never un-matches a name. -/
theorem mix_monotone (re : Re) (gs more : List Group) (es es' : List Entry)
    (h : specEntries re gs = some es) (h' : specEntries re (gs ++ more) = some es')
    (hsub : ∀ e, e ∈ es → e ∈ es') (q : List Label) (hg : GoodLabels q) (hw : wireLen q ≤ 254)
    (hm : (loaded re gs).match re (encode q) = true) :
    (loaded re (gs ++ more)).match re (encode q) = true := by
  rw [mix_spec re gs es h q hg hw] at hm
  rw [mix_spec re (gs ++ more) es' h' q hg hw]
  rcases hm with h1 | ⟨n, hn, hs⟩ | ⟨p, hp, hm⟩
  · exact Or.inl (hsub _ h1)
  · exact Or.inr (Or.inl ⟨n, hsub _ hn, hs⟩)
  · exact Or.inr (Or.inr ⟨p, hsub _ hp, hm⟩)

theorem specEntries_append (re : Re) (gs more : List Group) :
    specEntries re (gs ++ more) =
      (match specEntries re gs, specEntries re more with
      | some a, some b => some (a ++ b)
      | _, _ => none) := by
  induction gs with
  | nil => cases h : specEntries re more <;> simp [specEntries, h]
  | cons g rest ih =>
    simp only [List.cons_append, specEntries, ih]
    cases specGroupEntries re g <;> cases specEntries re rest <;> cases specEntries re more <;> simp

/-- the entries of `gs ++ more` are those of `gs` followed by those of `more`
    (so `mix_monotone`'s inclusion hypothesis always holds). -/
theorem entries_append_sub (re : Re) (gs more : List Group) (es es' : List Entry)
    (h : specEntries re gs = some es) (h' : specEntries re (gs ++ more) = some es') :
    ∀ e, e ∈ es → e ∈ es' := by
  rw [specEntries_append, h] at h'
  cases hm : specEntries re more with
  | none => simp [hm] at h'
  | some b =>
    simp only [hm, Option.some.injEq] at h'
    subst h'
    intro e he; simp [he]

/-- ★ entries are case-insensitive: the name denoted by an entry, hence (by `mix_loaded`) the
    matcher, does not change when letters of a `full:`/`domain:`/bare entry change case. -/
theorem entry_case_insensitive (re : Re) (x x' : Bytes) (h : x.map lowerByte = x'.map lowerByte) :
    specRule re (pfxFull ++ x) = specRule re (pfxFull ++ x') ∧
    specRule re (pfxDomain ++ x) = specRule re (pfxDomain ++ x') := by
  have hn := specName_case x x' h
  constructor
  · simp [specRule, pfxFull, hn]
  · simp [specRule, pfxDomain, pfxFull, hn]

/-- the model-level form: both spellings leave the `MixMatcher` in the very same state. -/
theorem add_case_insensitive (re : Re) (m : Mix) (x x' : Bytes) (ls : List Label)
    (hx : specName x = some ls) (h : x.map lowerByte = x'.map lowerByte) :
    m.add re (pfxDomain ++ x) = m.add re (pfxDomain ++ x') ∧
    m.add re (pfxFull ++ x) = m.add re (pfxFull ++ x') := by
  have hx' : specName x' = some ls := by rw [← specName_case x x' h]; exact hx
  obtain ⟨b, hp, hl, hg, hw⟩ := parseReadable_spec x ls hx
  obtain ⟨b', hp', hl', _, _⟩ := parseReadable_spec x' ls hx'
  constructor
  · rw [add_domain, add_domain]; simp [hp, hp', hl, hl']
  · rw [add_full, add_full]; simp [hp, hp', hl, hl']

theorem not_prefix_of_no_colon (p x : Bytes) (hp : (58 : UInt8) ∈ p) (hc : x.contains 58 = false) :
    p.isPrefixOf x = false := by
  rw [← Bool.not_eq_true, List.isPrefixOf_iff_prefix]
  rintro ⟨t, rfl⟩
  have : (58 : UInt8) ∈ p ++ t := List.mem_append_left t hp
  rw [← List.contains_iff_mem, hc] at this
  exact Bool.false_ne_true this

/-- ★ the same for bare entries (no `:` in them). -/
theorem bare_case_insensitive (re : Re) (x x' : Bytes) (h : x.map lowerByte = x'.map lowerByte)
    (hc : x.contains 58 = false) (hc' : x'.contains 58 = false) :
    specRule re x = specRule re x' := by
  unfold specRule
  rw [not_prefix_of_no_colon pfxFull x (by decide) hc, not_prefix_of_no_colon pfxDomain x (by decide) hc,
    not_prefix_of_no_colon pfxRegexp x (by decide) hc,
    not_prefix_of_no_colon pfxFull x' (by decide) hc', not_prefix_of_no_colon pfxDomain x' (by decide) hc',
    not_prefix_of_no_colon pfxRegexp x' (by decide) hc', hc, hc', specName_case x x' h]
  simp

example : specRule miniRe [102, 117, 108, 108, 58, 65] = some (.full [[97]]) := by decide  -- "full:A"
example : specRule miniRe [65, 46, 66] = some (.domain [[97], [98]]) := by decide           -- "A.B"
example : specLine miniRe [32, 97, 32, 35, 120] = .entry (.domain [[97]]) := by decide      -- " a #x"
example : specLine miniRe [9, 35, 97] = .ignored := by decide                               -- "\t#a"
example : specLine miniRe [] = .ignored := by decide

/-- ★ the model satisfies the executable specification used as the oracle for the
    implementation's observed outputs — for every engine and every case. -/
theorem model_meets_spec (re : Re) (c : Case) : spec re c (model re c) = true := by
  unfold spec
  cases h : specEntries re c.groups with
  | none => rfl
  | some es =>
    obtain ⟨m', hm, hs⟩ := runGroups_sem re c.groups es h {} [] (sem_empty re)
    simp only [model, hm, beq_self_eq_true, Bool.true_and]
    exact specQueries_sem re m' es (by simpa using hs) c.queries

/-- ★ and so does `ToReadable` for the component `readable`. -/
theorem readable_meets_spec (q : Query) : specReadable q (toReadable q.toWire) = true := by
  cases q with
  | wire n => rfl
  | labels ls =>
    simp only [specReadable, Query.toWire]
    split
    · rename_i hc
      obtain ⟨hg, hw⟩ := goodName_good ls hc
      simp [toReadable_encode ls hg hw]
    · rfl

/-- the specification is not vacuous: with the entry `com`, `a.com` must match and `org` must not;
    an unloaded well-formed entry is a violation. -/
example : spec miniRe ⟨[.load [[99]]], [.labels [[97], [99]], .labels [[111]]]⟩ ⟨[[true]], [true, false]⟩ = true := by
  decide
example : spec miniRe ⟨[.load [[99]]], [.labels [[97], [99]], .labels [[111]]]⟩ ⟨[[true]], [false, false]⟩ = false := by
  decide
example : spec miniRe ⟨[.load [[99]]], [.labels [[97], [99]], .labels [[111]]]⟩ ⟨[[true]], [true, true]⟩ = false := by
  decide
example : spec miniRe ⟨[.load [[99]]], [.labels [[97], [99]]]⟩ ⟨[[false]], [true]⟩ = false := by decide
example : specReadable (.labels [[97, 1]]) (some [97, 49]) = false := by decide

/-! ## witnesses of the repaired defects (the pre-fix code, for the record) -/

/-- D5: the pre-fix key was the zero-padded label without its length … -/
def oldShortKey (label : Label) : List UInt8 :=
  label.take 24 ++ List.replicate (24 - (label.take 24).length) 0

/-- … so `a` and `a\x00` shared a key. -/
theorem d5_old_key_not_injective : oldShortKey [97] = oldShortKey [97, 0] ∧ ([97] : Label) ≠ [97, 0] := by
  decide

/-- D4: the pre-fix `Add` had no early return: `GetOrAddChild` replaced a leaf by a subtree. -/
def oldAddWalk : List Label → Children → Children
  | [], n => n
  | label :: rest, n =>
    if label.length == 0 then oldAddWalk rest n
    else if rest.isEmpty then addLeaf n label
    else
      let r := getOrAddChild n label
      store (keyOf label) (.node (oldAddWalk rest r.2)) r.1

/-- `com` then `a.com`: `com` and `b.com` stopped matching. -/
theorem d4_old_add_unmatches :
    matchWalk [[99]] (oldAddWalk [[99]] []) = true ∧
    matchWalk [[99]] (oldAddWalk [[99], [97]] (oldAddWalk [[99]] [])) = false ∧
    matchWalk [[99], [98]] (oldAddWalk [[99], [97]] (oldAddWalk [[99]] [])) = false ∧
    matchWalk [[99], [98]] (addWalk [[99], [97]] (addWalk [[99]] [])) = true := by decide

/-- D6: the pre-fix escape wrote the bare decimal value … -/
def oldEscapeByte (b : UInt8) : Bytes :=
  if isPrintableLabelChar b then [b]
  else if b = 46 then [92, 46]
  else if b = 92 then [92, 92]
  else (toString b.toNat).toList.map (fun c => UInt8.ofNat c.toNat)

/-- … so `a\x01` and `a1` had the same text. -/
theorem d6_old_text_not_injective :
    ([97, 1] : Label).flatMap oldEscapeByte = ([97, 49] : Label).flatMap oldEscapeByte := by decide

/-! ## ties -/

/-- the octets of an ASCII string literal. -/
def asciiOf (s : String) : Bytes := s.toList.map (fun c => UInt8.ofNat c.toNat)

set_option maxRecDepth 100000 in
/-- pinned source facts the model depends on. -/
theorem pins :
    -- the key: the array width, the length octet (the `l < 24` tests: `Lemmas/TranslatedC11`, `keyOf_translated_*`)
    Facts.dm_shortKeyBody = "{ copy(key[:23], label) key[23] = byte(len(label)) return key }" ∧
    Facts.dm_shortMapMake = "n.s = make(map[[24]byte]*labelNode)" ∧
    Facts.dm_addLeafShort = "n.s[shortLabelKey(label)] = nil" ∧
    Facts.dm_addLeafLong = "n.l[string(label)] = nil" ∧
    -- DomainMatcher.Add / Match: nil-ness tests (the integer / boolean tests: `addWalk_translated`,
    -- `add_translated`, `matchWalk_translated`)
    Facts.dm_addEarlyReturnCond = "ok && child == nil" ∧
    Facts.dm_matchNilCond = "child == nil" ∧
    Facts.dm_matchNilReturn = "return ok" ∧
    -- MixMatcher.Add, loader (the `i >= 0` and `len(b) == 0` tests: `mixAdd_translated`,
    -- `stripComment_translated`, `loaderLine_translated`)
    Facts.dm_mixSep = "':'" ∧ Facts.dm_mixLowerCount = 2 ∧
    Facts.dm_mixSwitchRegexp = "case \"regexp\": return m.regexp.Add(string(exp))" ∧
    Facts.dm_loaderComment = "'#'" ∧ Facts.dm_loaderTrim = "b = bytes.TrimSpace(b)" ∧
    -- text form: the call of `isPrintableLabelChar` (its body, the four appended octets of the `\DDD` escape,
    -- the lower-casing step, the root test: `isPrintableLabelChar_translated`, `escapeByte_translated`,
    -- `lowerByte_translated`, `toReadable_translated`)
    Facts.dm_escapePrintableCond = "isPrintableLabelChar(b)" ∧
    -- (builder / scanner limits and offsets: `appendLabel_translated`, `parseReadable_translated`,
    -- `parseLoop_translated`, `dropTrailingDot_translated`, `scan_translated`, `scanLoop_*_translated`)
    -- the model's constants
    keyWidth = 24 ∧ labelMax = 63 ∧ builderMax = 253 ∧ scanMax = 254 ∧
    typDomain = asciiOf "domain" ∧ typFull = asciiOf "full" ∧ typRegexp = asciiOf "regexp" ∧
    pfxDomain = asciiOf "domain:" ∧ pfxFull = asciiOf "full:" ∧ pfxRegexp = asciiOf "regexp:" := by
  decide

set_option maxRecDepth 100000 in
/-- the two remaining switch arms, pinned whole. -/
theorem pins_switch :
    Facts.dm_mixSwitchDomain = "case \"\", \"domain\": var builder dnsmsg.NameBuilder err := builder.ParseReadable(exp) if err != nil { return err } dnsmsg.ToLowerName(builder.Data()) scanner := dnsmsg.NewNameScanner(builder.Data()) labels := make([][]byte, 0, 8) for scanner.Scan() { labels = append(labels, scanner.Label()) } m.domain.Add(labels) return nil" ∧
    Facts.dm_mixSwitchFull = "case \"full\": var builder dnsmsg.NameBuilder err := builder.ParseReadable(exp) if err != nil { return err } dnsmsg.ToLowerName(builder.Data()) m.full.Add(builder.Data()) return nil" := by
  decide

end MosVerif.C11
