/-
  C15 — Rate limiting is a per-client-subnet token bucket isolating clients.

  Property theorems over the model `MosVerif/Model/Limiter.lean` (helper lemmas in
  `MosVerif/Lemmas/Limiter*.lean`).  ★ marks the theorems that state the property.

  Vocabulary: a *history* is a list of `Op`s — arrivals `(address, time, cost)` and gc
  passes — run on `ClientLimiter.new c` for an arbitrary configuration `c` (any integers,
  omitted = 0).  `runOps` yields one verdict per arrival.  Keys are `mask c.setDefault addr`.
-/
import MosVerif.Lemmas.TranslatedC15
import MosVerif.Lemmas.LimiterSpec
import MosVerif.Lemmas.LimiterGc
import MosVerif.Lemmas.LimiterClock
import MosVerif.Lemmas.LimiterConc
import MosVerif.Lemmas.LimiterListener
import MosVerif.Generated.Facts
namespace MosVerif.C15
open MosVerif.Limiter

/-! ## the token bucket bound -/

theorem new_limit_pos (c : Opts) : 0 < (ClientLimiter.new c).limit := by
  rw [new_limit]; exact specLimit_pos c

/-- ★ **bucket_bound.**  For every configuration, every time-ordered history (arrivals from
    any addresses, gc passes anywhere), every subnet key `k` and every time window `[a, b]`:
    the cost admitted for `k` inside the window is at most
    `burst + rate·(b − a)` plus the dependency's truncation slack of `rate − 1` nano-tokens
    (< 10⁻⁹·rate token).  Units: nano-tokens; `b − a` in ns. -/
theorem bucket_bound (c : Opts) (os : List Op) (hs : sortedOps os = true) (k : Addr) (a b : Nat) (hab : a ≤ b) :
    admittedCost (inWindow c.setDefault k a b) os ((ClientLimiter.new c).runOps os) * nano
      ≤ specBurst c * nano + specLimit c * (b - a) + (specLimit c - 1) := by
  have h := window_outside k a b hab os (ClientLimiter.new c) 0 (new_limit_pos c)
    (Bucket.inv_fresh _ (new_limit_pos c) 0) (sortedFrom_of_sortedOps os hs) (Nat.zero_le _)
  rw [new_limit, new_burst] at h
  have hp := specLimit_pos c
  have : (ClientLimiter.new c).opts = c.setDefault := rfl
  rw [this] at h
  have hr : (ClientLimiter.new c).runOps os = (ClientLimiter.new c).runOpsAtWith true os :=
    runOpsWith_eq_at true os _ 0 (ClientLimiter.seenLe_new c 0) (sortedFrom_of_sortedOps os hs)
  rw [hr]
  omega

/-- the same bound, phrased with the specification's subnet relation: the arrivals counted
    are those from the same client subnet as `x` (/24, /48 or as configured). -/
theorem bucket_bound_subnet (c : Opts) (os : List Op) (hs : sortedOps os = true) (x : Addr) (a b : Nat) (hab : a ≤ b) :
    admittedCost (fun e => specSame c x e.addr && decide (a ≤ e.t) && decide (e.t ≤ b)) os
        ((ClientLimiter.new c).runOps os) * nano
      ≤ specBurst c * nano + specLimit c * (b - a) + (specLimit c - 1) := by
  have h := bucket_bound c os hs (mask c.setDefault x) a b hab
  have hf : (fun e : Ev => specSame c x e.addr && decide (a ≤ e.t) && decide (e.t ≤ b))
      = inWindow c.setDefault (mask c.setDefault x) a b := by
    funext e
    simp only [inWindow, specSame_eq]
    congr 2
    apply decide_eq_decide.mpr
    exact eq_comm
  rw [hf]; exact h

/-- non-vacuity: a burst of exactly the bucket size is admitted, one more is not. -/
example : (ClientLimiter.new ⟨1, 5, 0, 0⟩).runOps
    [.allow ⟨.v4 0xC0000207, 0, 5⟩, .allow ⟨.v4 0xC0000208, 0, 1⟩, .allow ⟨.v4 0xC0000307, 0, 1⟩]
    = [true, false, true] := by decide

/-! ## time stamps in any order (repair f8b61d0) -/

/-- ★ **bucket_bound_any_order.**  `AllowN` takes the caller's time stamp, and a caller that is
    delayed between `time.Now()` and the bucket's lock arrives with an older one.  For every
    configuration, after any history `pre` (arrivals, gc passes), for every run `mid` of
    consecutive arrivals with time stamps in ANY order and every subnet key `k`: the cost admitted
    for `k` in `mid` is at most `burst + rate × (newest − oldest time stamp of k's arrivals in
    mid)` plus the truncation slack.  (The bucket's effective clock is the newest time stamp it
    has seen.) -/
theorem bucket_bound_any_order (c : Opts) (pre : List Op) (mid : List Ev) (k : Addr) :
    admittedK c.setDefault k mid (((ClientLimiter.new c).afterOps pre).run mid) * nano
      ≤ specBurst c * nano + specLimit c * spanK c.setDefault k mid + (specLimit c - 1) := by
  have ho : ((ClientLimiter.new c).afterOps pre).opts = c.setDefault := ClientLimiter.afterOps_opts pre _
  have hL : ((ClientLimiter.new c).afterOps pre).limit = specLimit c := limit_of_opts c _ ho
  have hB : ((ClientLimiter.new c).afterOps pre).burst = specBurst c := burst_of_opts c _ ho
  have h := any_order_bound k mid ((ClientLimiter.new c).afterOps pre) (hL ▸ specLimit_pos c)
    (ClientLimiter.ok_afterOps pre _ (new_limit_pos c) (ClientLimiter.ok_new c))
  rw [ho, hL, hB] at h
  have hp := specLimit_pos c
  omega

/-- **witness for the repaired defect** (f8b61d0): without the clamp (`runAt`: the time stamp is
    handed to `rate.Limiter` as it comes) the bound is false — rate 2/s, burst 2, a fresh
    caller (t = 2 s) alternating with a caller that is 1 s late (t = 1 s): every stale
    admission moves the bucket's `last` back and the next fresh one is credited the second
    again; 6 admitted where `burst + rate × (2 s − 1 s)` = 4.  With the clamp: 2. -/
theorem unclamped_breaks_bound :
    let c : Opts := ⟨2, 2, 0, 0⟩
    let a : Addr := .v4 0xC0000207
    let es : List Ev := [⟨a, 2 * nano, 1⟩, ⟨a, 1 * nano, 1⟩, ⟨a, 2 * nano, 1⟩, ⟨a, 1 * nano, 1⟩, ⟨a, 2 * nano, 1⟩, ⟨a, 1 * nano, 1⟩]
    (ClientLimiter.new c).runAt es = [true, true, true, true, true, true] ∧
    ¬ (admittedK c.setDefault (.v4 0xC0000200) es ((ClientLimiter.new c).runAt es) * nano
        ≤ specBurst c * nano + specLimit c * spanK c.setDefault (.v4 0xC0000200) es + (specLimit c - 1)) ∧
    (ClientLimiter.new c).run es = [true, true, false, false, false, false] := by
  decide

/-! ## isolation -/

/-- ★ **isolation.**  For every configuration and every history (no ordering assumption, gc
    passes included): the verdicts of the arrivals of key `k` are exactly the verdicts obtained
    on the history from which every other key's arrivals have been erased. -/
theorem isolation (c : Opts) (os : List Op) (k : Addr) :
    decisionsFor c.setDefault k os ((ClientLimiter.new c).runOps os)
      = (ClientLimiter.new c).runOps (onlyKey c.setDefault k os) :=
  isolation_clamped gcRequiresFull k os (ClientLimiter.new c) (ClientLimiter.new c) rfl rfl

/-- two histories with the same arrivals of `k` (and the same gc passes) give `k` the same verdicts -/
theorem isolation_two_histories (c : Opts) (os os' : List Op) (k : Addr)
    (h : onlyKey c.setDefault k os = onlyKey c.setDefault k os') :
    decisionsFor c.setDefault k os ((ClientLimiter.new c).runOps os)
      = decisionsFor c.setDefault k os' ((ClientLimiter.new c).runOps os') := by
  rw [isolation, isolation, h]

/-- non-vacuity: erasing really removes arrivals -/
example : onlyKey (Opts.setDefault ⟨0, 0, 0, 0⟩) (.v4 0xC0000200)
    [.allow ⟨.v4 0xC0000207, 0, 5⟩, .allow ⟨.v4 0xC0000307, 0, 1⟩, .gc 7] = [.allow ⟨.v4 0xC0000207, 0, 5⟩, .gc 7] := by
  decide

/-! ## garbage collection -/

theorem evs_sorted_of_ops : ∀ (os : List Op) (τ : Nat), sortedFrom τ os → sortedEvs τ (Op.evs os)
  | [], _, _ => trivial
  | .gc now _ :: os, τ, h => by
    have := evs_sorted_of_ops os now h.2
    simp only [Op.evs]
    cases hh : Op.evs os with
    | nil => trivial
    | cons e es => rw [hh] at this; exact ⟨Nat.le_trans h.1 this.1, this.2⟩
  | .allow e :: os, τ, h => ⟨h.1, evs_sorted_of_ops os e.t h.2⟩


/-- **gc_transparent.**  With the fullness requirement of the repaired `gc` the verdicts of a
    time-ordered history are those of its arrivals alone: gc passes are unobservable
    (for configurations within the dependency's range, `saneBurst`). -/
theorem gc_transparent (c : Opts) (os : List Op) (hs : sortedOps os = true) (hb : saneBurst c = true) :
    (ClientLimiter.new c).runOps os = (ClientLimiter.new c).run (Op.evs os) := by
  have hsane : (ClientLimiter.new c).burst * nano ≤ (ClientLimiter.new c).limit * maxDuration := by
    rw [new_limit, new_burst]; simpa [saneBurst] using hb
  have h1 : (ClientLimiter.new c).runOps os = (ClientLimiter.new c).runOpsAtWith true os :=
    runOpsWith_eq_at true os _ 0 (ClientLimiter.seenLe_new c 0) (sortedFrom_of_sortedOps os hs)
  have h2 := gc_transparent_gen os (ClientLimiter.new c) (ClientLimiter.new c) 0
    (GcSim.refl _ 0 (fun k => (Bucket.inv_fresh _ (new_limit_pos c) 0).2))
    (sortedFrom_of_sortedOps os hs) hsane
  have h3 := run_eq_at (Op.evs os) (ClientLimiter.new c) 0 (ClientLimiter.seenLe_new c 0)
    (evs_sorted_of_ops os 0 (sortedFrom_of_sortedOps os hs))
  rw [h1, h2, h3]

/-- **witness for the repaired defect** (commit 0275661): with the *old* gc condition
    (`lastSeen.Before(ddl)` alone) the bound is false — rate 1/s, burst 200: 200 admitted at
    t = 0, a gc pass at t = 70 s drops the empty bucket, 200 more admitted at t = 71 s:
    400 > 200 + 71. -/
theorem gc_old_breaks_bound :
    let c : Opts := ⟨1, 200, 0, 0⟩
    let os : List Op := [.allow ⟨.v4 0xC0000207, 0, 200⟩, .gc (70 * nano), .allow ⟨.v4 0xC0000207, 71 * nano, 200⟩]
    sortedOps os = true ∧
    ¬ (admittedCost (inWindow c.setDefault (.v4 0xC0000200) 0 (71 * nano)) os
          ((ClientLimiter.new c).runOpsWith false os) * nano
        ≤ specBurst c * nano + specLimit c * (71 * nano - 0) + (specLimit c - 1)) := by
  decide

/-- … and the same history is within the bound for the code as it is now -/
example :
    (ClientLimiter.new ⟨1, 200, 0, 0⟩).runOps
      [.allow ⟨.v4 0xC0000207, 0, 200⟩, .gc (70 * nano), .allow ⟨.v4 0xC0000207, 71 * nano, 200⟩]
      = [true, false] := by decide

/-- the three sequential orders of (gc pass, arrival of the whole burst, second such arrival at
    the same instant) on a full bucket that has been idle for 10 minutes: never both admitted.
    (Component `limiter_gcrace` looks for the outcome "both admitted" under real concurrency.) -/
example :
    let c : Opts := ⟨1, 1000, 0, 0⟩
    let a : Addr := .v4 0xC0000207
    let now := 600 * nano
    (ClientLimiter.new c).runOps [.allow ⟨a, 0, 0⟩, .gc now, .allow ⟨a, now, 1000⟩, .allow ⟨a, now, 1000⟩] = [true, true, false] ∧
    (ClientLimiter.new c).runOps [.allow ⟨a, 0, 0⟩, .allow ⟨a, now, 1000⟩, .gc now, .allow ⟨a, now, 1000⟩] = [true, true, false] ∧
    (ClientLimiter.new c).runOps [.allow ⟨a, 0, 0⟩, .allow ⟨a, now, 1000⟩, .allow ⟨a, now, 1000⟩, .gc now] = [true, true, false] := by
  decide

/-! ## concurrency: gc passes racing with arrivals (repair 8757f14)

  `Model/LimiterConc.lean` is a small interleaving model: goroutines' `LoadOrCompute`s, the
  locked regions of `AllowN` (possibly on a stale pointer) and the locked regions of gc, in
  any order.
-/

/-- the state after a schedule -/
def after (s : CState) : List Step → CState
  | [] => s
  | st :: sts => after (s.step st).2 sts

theorem after_inv (c : Opts) (sts : List Step) : (after (CState.init c) sts).Inv := by
  have h : ∀ (sts : List Step) (s : CState), s.Inv → (after s sts).Inv := by
    intro sts
    induction sts with
    | nil => intro s hs; exact hs
    | cons st sts ih => intro s hs; exact ih _ (s.inv_step hs st)
  exact h sts _ (CState.inv_init c)

/-- ★ **no consumption is ever lost.**  In every state reachable by any schedule, a locked
    region of `AllowN` that returns a verdict runs on the entry that the map currently holds
    for the key (never on an entry that gc has removed: such an entry is dead and the
    goroutine loads again). -/
theorem verdict_on_live_entry (c : Opts) (sts : List Step) (id : Nat) (addr : Addr) (now n : Nat) (v : Bool)
    (hv : ((after (CState.init c) sts).step (.locked id addr now n)).1 = some v) :
    (after (CState.init c) sts).map (mask (after (CState.init c) sts).opts addr) = some id :=
  CState.locked_on_mapped_entry _ (after_inv c sts) id addr now n v hv

theorem abs_init (c : Opts) : (CState.init c).abs = ClientLimiter.new c :=
  ClientLimiter.ext_pointwise _ _ rfl fun _ => rfl

/-- ★ **linearizability.**  The verdicts returned along any schedule of loads, locked regions
    (on fresh or stale pointers) and gc regions are exactly the verdicts of the sequential
    limiter on the schedule's visible steps in schedule order (arrivals whose locked region
    found a live entry, per-key gc passes). -/
theorem concurrent_linearizable (c : Opts) (sts : List Step) :
    (CState.init c).exec sts = (ClientLimiter.new c).runOps ((CState.init c).absOps sts) := by
  rw [← abs_init]; exact CState.linearizable sts _ (CState.inv_init c)

/-- hence the token bucket bound holds for every schedule whose visible steps carry
    non-decreasing time stamps -/
theorem concurrent_bucket_bound (c : Opts) (sts : List Step)
    (hs : sortedOps ((CState.init c).absOps sts) = true) (k : Addr) (a b : Nat) (hab : a ≤ b) :
    admittedCost (inWindow c.setDefault k a b) ((CState.init c).absOps sts) ((CState.init c).exec sts) * nano
      ≤ specBurst c * nano + specLimit c * (b - a) + (specLimit c - 1) := by
  rw [concurrent_linearizable]; exact bucket_bound c _ hs k a b hab

/-- non-vacuity: a goroutine holding a stale pointer (entry 0, dropped by gc) gets no verdict
    from it; it loads again (entry 1) and the whole burst is granted once, not twice. -/
example :
    let c : Opts := ⟨1, 1000, 0, 0⟩
    let a : Addr := .v4 0xC0000207
    let k : Addr := .v4 0xC0000200
    let now := 600 * nano
    (CState.init c).exec [.load k, .locked 0 a 0 0, .gcEntry k now, .locked 0 a now 1000,
        .load k, .locked 1 a now 1000, .locked 0 a now 1000, .locked 1 a now 1000] = [true, true, false] := by
  decide

/-! ## which subnet is the key -/

/-- ★ **subnet_default.**  With the masks omitted (0) — or impossible (≤ 0, > 32 / > 128) —
    the key of an IPv4 address is its /24, the key of an IPv4-mapped IPv6 address is the /24 of
    the embedded IPv4 address, the key of any other IPv6 address is its /48 (zone dropped). -/
theorem subnet_default (c : Opts) (h4 : c.v4Mask ≤ 0 ∨ c.v4Mask > 32) (h6 : c.v6Mask ≤ 0 ∨ c.v6Mask > 128) :
    (∀ a, mask c.setDefault (.v4 a) = .v4 (a / 2 ^ 8 * 2 ^ 8)) ∧
    (∀ a z, a < 2 ^ 32 → mask c.setDefault (.v6 (0xffff * 2 ^ 32 + a) z) = .v4 (a / 2 ^ 8 * 2 ^ 8)) ∧
    (∀ a z, a / 2 ^ 32 ≠ 0xffff → mask c.setDefault (.v6 a z) = .v6 (a / 2 ^ 80 * 2 ^ 80) "") := by
  have b4 : specBits4 c = 24 := by unfold specBits4; split <;> omega
  have b6 : specBits6 c = 48 := by unfold specBits6; split <;> omega
  refine ⟨fun a => ?_, fun a z ha => ?_, fun a z ha => ?_⟩
  · rw [mask_v4, b4]; rfl
  · rw [mask_eq_specKey]
    have h1 : (0xffff * 2 ^ 32 + a) / 2 ^ 32 = 0xffff := by omega
    have h2 : (0xffff * 2 ^ 32 + a) % 2 ^ 32 = a := by omega
    simp only [specKey, specClient, h1, if_true, h2, b4]; rfl
  · rw [mask_eq_specKey]
    simp only [specKey, specClient, ha, if_false, b6]; rfl

/-- the defaults, field by field (D8 regression: the IPv6 default goes to `v6Mask`) -/
theorem setDefault_fields (c : Opts) :
    (c.setDefault).limit = (if c.limit ≤ 0 then 20 else c.limit) ∧
    (c.setDefault).burst = (if c.burst ≤ 0 then (c.setDefault).limit else c.burst) ∧
    (c.setDefault).v4Mask = (if c.v4Mask ≤ 0 ∨ c.v4Mask > 32 then 24 else c.v4Mask) ∧
    (c.setDefault).v6Mask = (if c.v6Mask ≤ 0 ∨ c.v6Mask > 128 then 48 else c.v6Mask) := by
  refine ⟨setDefault_limit c, ?_, setDefault_v4 c, setDefault_v6 c⟩
  rw [setDefault_burst, setDefault_limit]

/-- explicitly configured masks are used as they are -/
theorem subnet_configured (c : Opts) (h4 : 1 ≤ c.v4Mask ∧ c.v4Mask ≤ 32) (h6 : 1 ≤ c.v6Mask ∧ c.v6Mask ≤ 128) :
    (∀ a, mask c.setDefault (.v4 a) = .v4 (maskBits 32 c.v4Mask.toNat a)) ∧
    (∀ a z, a / 2 ^ 32 ≠ 0xffff → mask c.setDefault (.v6 a z) = .v6 (maskBits 128 c.v6Mask.toNat a) "") := by
  have b4 : specBits4 c = c.v4Mask.toNat := by unfold specBits4; rw [if_pos h4]
  have b6 : specBits6 c = c.v6Mask.toNat := by unfold specBits6; rw [if_pos h6]
  refine ⟨fun a => by rw [mask_v4, b4], fun a z ha => ?_⟩
  rw [mask_eq_specKey]
  simp only [specKey, specClient, ha, if_false, b6]

/-- ★ same client subnet ⇔ same key, for every configuration and all addresses (IPv4,
    IPv4-mapped, IPv6, zoned): in particular the same /24 share a bucket and different /24 do
    not, under the default configuration. -/
theorem same_subnet_iff_same_key (c : Opts) (x y : Addr) :
    specSame c x y = true ↔ mask c.setDefault x = mask c.setDefault y := by
  rw [specSame_eq]; simp

theorem same_24_same_key (c : Opts) (h4 : c.v4Mask ≤ 0 ∨ c.v4Mask > 32) (a b : Nat) :
    mask c.setDefault (.v4 a) = mask c.setDefault (.v4 b) ↔ a / 256 = b / 256 := by
  have b4 : specBits4 c = 24 := by unfold specBits4; split <;> omega
  rw [mask_v4, mask_v4, b4]
  simp [maskBits_eq_iff]

theorem v4_and_mapped_same_key (c : Opts) (a : Nat) (z : String) (ha : a < 2 ^ 32) :
    mask c.setDefault (.v6 (0xffff * 2 ^ 32 + a) z) = mask c.setDefault (.v4 a) := by
  rw [mask_eq_specKey, mask_eq_specKey]
  have h1 : (0xffff * 2 ^ 32 + a) / 2 ^ 32 = 0xffff := by omega
  have h2 : (0xffff * 2 ^ 32 + a) % 2 ^ 32 = a := by omega
  simp only [specKey, specClient, h1, if_true, h2]

/-- the zone of a link-local address does not matter -/
theorem zone_irrelevant (c : Opts) (a : Nat) (z z' : String) :
    mask c.setDefault (.v6 a z) = mask c.setDefault (.v6 a z') := by
  rw [mask_eq_specKey, mask_eq_specKey]; rfl

/-- non-vacuity of the default subnet sizes -/
example : mask (Opts.setDefault ⟨0, 0, 0, 0⟩) (.v4 0xC0000207) = .v4 0xC0000200 := by decide
example : mask (Opts.setDefault ⟨0, 0, 0, 0⟩) (.v6 0x00000000000000000000FFFFC0000207 "") = .v4 0xC0000200 := by decide
example : mask (Opts.setDefault ⟨0, 0, 0, 0⟩) (.v6 0x20010DB8AAAABBBB0000000000000001 "eth0")
    = .v6 0x20010DB8AAAA00000000000000000000 "" := by decide
example : mask (Opts.setDefault ⟨0, 0, 0, 0⟩) (.v4 0xC0000207) ≠ mask (Opts.setDefault ⟨0, 0, 0, 0⟩) (.v4 0xC0000107) := by decide

theorem maskBits_idem (w b a : Nat) : maskBits w b (maskBits w b a) = maskBits w b a := by
  unfold maskBits
  rw [Nat.mul_div_cancel _ (Nat.pow_pos (by decide))]

/-- masking an IPv6 address that is not IPv4-mapped never produces an IPv4-mapped one -/
theorem maskBits_not_mapped (b a : Nat) (hb : 1 ≤ b ∧ b ≤ 128) (ha : a / 2 ^ 32 ≠ 0xffff) :
    maskBits 128 b a / 2 ^ 32 ≠ 0xffff := by
  unfold maskBits
  by_cases hj : 128 - b ≤ 32
  · -- the mask keeps the top 96 bits
    have hq : (2:Nat) ^ 32 = 2 ^ (128 - b) * 2 ^ (32 - (128 - b)) := by
      rw [← Nat.pow_add]; congr 1; omega
    rw [hq, ← Nat.div_div_eq_div_mul, Nat.mul_div_cancel _ (Nat.pow_pos (by decide)), Nat.div_div_eq_div_mul, ← hq]
    exact ha
  · -- the masked value is a multiple of 2^33
    have hp : (2:Nat) ^ (128 - b) = 2 ^ (128 - b - 33) * 2 * 2 ^ 32 := by
      rw [Nat.mul_assoc, ← Nat.pow_succ', ← Nat.pow_add]; congr 1; omega
    rw [hp, ← Nat.mul_assoc, Nat.mul_div_cancel _ (Nat.pow_pos (by decide)), ← Nat.mul_assoc]
    omega

/-- **mask_idempotent.**  A key is its own key. -/
theorem mask_idempotent (c : Opts) (x : Addr) : mask c.setDefault (mask c.setDefault x) = mask c.setDefault x := by
  rw [mask_eq_specKey c x]
  unfold specKey
  cases hx : specClient x with
  | none => rfl
  | some p =>
    obtain ⟨f, a⟩ := p
    cases f with
    | true => simp only; rw [mask_v4, maskBits_idem]
    | false =>
      simp only
      have hna : a / 2 ^ 32 ≠ 0xffff := by
        cases x with
        | zero => simp [specClient] at hx
        | v4 b => simp [specClient] at hx
        | v6 b z =>
          simp only [specClient] at hx
          split at hx
          · simp at hx
          · simp at hx; rw [← hx]; assumption
      have := maskBits_not_mapped (specBits6 c) a (specBits6_range c) hna
      rw [mask_eq_specKey]
      simp only [specKey, specClient, this, if_false, maskBits_idem]

/-! ## the resource limiter: global first, then the client -/

/-- a refusal by the global limiter leaves every client bucket untouched -/
theorem global_refusal_keeps_clients (l : ResLimiter) (addr : Addr) (now n : Nat)
    (h : (l.allowN addr now n).1 = .errGlobal) : (l.allowN addr now n).2.cl = l.cl := by
  obtain ⟨g, c⟩ := l
  cases g with
  | none =>
    cases c with
    | none => simp [ResLimiter.allowN] at h
    | some cl =>
      simp only [ResLimiter.allowN] at h
      split at h <;> simp at h
  | some g =>
    obtain ⟨g, gb⟩ := g
    cases c with
    | none =>
      simp only [ResLimiter.allowN] at h ⊢
      split <;> simp_all
    | some cl =>
      simp only [ResLimiter.allowN] at h ⊢
      split
      · rfl
      · rename_i hgo
        rw [if_neg hgo] at h
        split at h <;> simp at h

/-- the global limiter is asked first: if it refuses, the answer is `errGlobal` whatever the
    client's bucket holds -/
theorem global_first (l : ResLimiter) (g : Nat) (gb : Bucket) (addr : Addr) (now n : Nat)
    (hg : l.global = some (g, gb)) (hr : (gb.allowN g g now n).1 = false) :
    (l.allowN addr now n).1 = .errGlobal := by
  unfold ResLimiter.allowN
  simp [hg, hr]

/-- without a global limit the verdict is the client limiter's -/
theorem no_global_is_client (l : ResLimiter) (cl : ClientLimiter) (addr : Addr) (now n : Nat)
    (hg : l.global = none) (hc : l.cl = some cl) :
    ((l.allowN addr now n).1 = .ok ↔ (cl.allowN addr now n).1 = true) := by
  unfold ResLimiter.allowN
  simp only [hg, hc]
  cases (cl.allowN addr now n).1 <;> simp

/-- `initResourceLimiter`: a client limiter exists iff `client.limit > 0`, configured with the
    four client fields; the global limiter has rate = burst = `global_limit` -/
theorem init_shape (cfg : LimiterConfig) :
    ((ResLimiter.init cfg).cl.isSome ↔ cfg.client.limit > 0) ∧
    ((ResLimiter.init cfg).global.isSome ↔ cfg.globalLimit > 0) := by
  unfold ResLimiter.init
  constructor <;> (simp only; split <;> simp_all)

/-! ## what a refusal does -/

/-- ★ **refusal_action.**  At every admission point, if the limiter refuses the charged
    address then nothing is handed to `handleServerReq` (so nothing is forwarded); a UDP or TCP
    query (tcp and gnet listeners) is answered with RCODE REFUSED, an HTTP request (http and
    fasthttp listeners) with status 503.  (DoQ closes the stream; connection-level refusals
    close the connection.) -/
theorem refusal_action (l : ResLimiter) (p : Point) (oc : Bool) (addr : Addr) (now : Nat)
    (h : (limiterAllowN l addr now p.cost).1 ≠ .ok) :
    (admission l p oc addr now).1.forwards = false ∧
    (p = .udpQuery ∨ p = .tcpQuery ∨ p = .gnetQuery → (admission l p oc addr now).1 = .respRefused) ∧
    (p = .httpQuery ∨ p = .fasthttpQuery → (admission l p oc addr now).1 = .http503) := by
  unfold admission
  by_cases hoc : (p = .tcpQuery ∨ p = .gnetQuery) ∧ oc = true
  · rw [if_pos hoc]
    obtain ⟨hp, _⟩ := hoc
    rcases hp with hp | hp <;> subst hp <;> simp [Point.onRefused, Action.forwards]
  · rw [if_neg hoc]
    simp only [h, if_false]
    cases p <;> simp [Point.onRefused, Action.forwards]

/-- conversely a query is handled only after the limiter said yes (and, on the tcp and gnet
    listeners, the connection is below its concurrency cap) -/
theorem handled_only_if_admitted (l : ResLimiter) (p : Point) (oc : Bool) (addr : Addr) (now : Nat)
    (h : (admission l p oc addr now).1.forwards = true) :
    (limiterAllowN l addr now p.cost).1 = .ok ∧ ¬ ((p = .tcpQuery ∨ p = .gnetQuery) ∧ oc = true) := by
  unfold admission at h
  by_cases hoc : (p = .tcpQuery ∨ p = .gnetQuery) ∧ oc = true
  · rw [if_pos hoc] at h
    obtain ⟨hp, _⟩ := hoc
    rcases hp with hp | hp <;> subst hp <;> simp [Point.onRefused, Action.forwards] at h
  · rw [if_neg hoc] at h
    refine ⟨?_, hoc⟩
    by_cases hr : (limiterAllowN l addr now p.cost).1 = .ok
    · exact hr
    · simp only [hr, if_false] at h
      cases p <;> simp [Point.onRefused, Action.forwards] at h

/-- a TCP query over the per-connection concurrency cap is refused without charging anybody -/
theorem tcp_over_concurrency (l : ResLimiter) (addr : Addr) (now : Nat) :
    admission l .tcpQuery true addr now = (.respRefused, l) := by
  simp [admission, Point.onRefused]

/-- an invalid client address (e.g. a unix socket peer) is admitted and nobody is charged -/
theorem invalid_addr_not_charged (l : ResLimiter) (now n : Nat) : limiterAllowN l .zero now n = (.ok, l) := rfl

/-- non-vacuity: a refusal is possible -/
example : (limiterAllowN (ResLimiter.init ⟨0, ⟨1, 1, 0, 0⟩⟩) (.v4 1) 0 (Point.cost .tcpQuery)).1 = .errClient := by
  decide

/-! ## the model meets the executable specification -/

theorem evs_inRange : ∀ (os : List Op), timesInRange os = true → ∀ e ∈ Op.evs os, e.t ≤ maxDuration
  | [], _, _, he => by simp [Op.evs] at he
  | .gc _ _ :: os, h, e, he => by
    simp only [timesInRange, List.all_cons, Bool.and_eq_true] at h
    exact evs_inRange os h.2 e he
  | .allow e' :: os, h, e, he => by
    simp only [timesInRange, List.all_cons, Bool.and_eq_true, decide_eq_true_eq] at h
    simp only [Op.evs, List.mem_cons] at he
    rcases he with rfl | he
    · exact h.1
    · exact evs_inRange os h.2 e he

theorem runAt_length (cl : ClientLimiter) : ∀ (es : List Ev) , (cl.runAt es).length = es.length := by
  intro es
  induction es generalizing cl with
  | nil => rfl
  | cons e es ih => simp [ClientLimiter.runAt, ih]

theorem run_length (cl : ClientLimiter) : ∀ (es : List Ev) , (cl.run es).length = es.length := by
  intro es
  induction es generalizing cl with
  | nil => rfl
  | cons e es ih => simp [ClientLimiter.run, ih]

/-- without gc passes a history is its arrivals -/
theorem runOps_noGc : ∀ (os : List Op), noGc os = true → ∀ (cl : ClientLimiter), cl.runOps os = cl.run (Op.evs os)
  | [], _, _ => rfl
  | .allow e :: os, h, cl => by
    have h' : noGc os = true := by simpa [noGc] using h
    show (cl.allowN e.addr e.t e.n).1 :: (cl.allowN e.addr e.t e.n).2.runOps os = _
    rw [runOps_noGc os h']
    rfl
  | .gc _ _ :: os, h, _ => by simp [noGc] at h

/-- ★ **model_meets_spec.**  For every configuration and every history the verdicts of the
    model satisfy the executable specification that is used as the oracle on the
    implementation's verdicts (with no extra slack). -/
theorem model_meets_spec (c : Opts) (os : List Op) :
    spec c 0 os ((ClientLimiter.new c).runOps os) = true := by
  unfold spec
  split
  · rename_i h
    simp only [Bool.and_eq_true] at h
    obtain ⟨⟨hs, hr⟩, hb⟩ := h
    rw [gc_transparent c os hs hb]
    have hsort := evs_sorted_of_ops os 0 (sortedFrom_of_sortedOps os hs)
    rw [run_eq_at (Op.evs os) (ClientLimiter.new c) 0 (ClientLimiter.seenLe_new c 0) hsort]
    have hinv : (ClientLimiter.new c).Inv 0 := ClientLimiter.inv_new c (new_limit_pos c) 0
    have h1 := specBound_ok c ((specLimit c : Int) - 1 + (0 : Nat)) (by omega) (Op.evs os) (ClientLimiter.new c) 0 rfl hinv hsort
    have h2 := specNoSpur_ok c ((0 : Nat) : Int) (by omega) (Op.evs os) (ClientLimiter.new c) [] 0 rfl hinv
      (fun k => tight_new c _ (by omega) hb k 0) hsort (evs_inRange os hr)
    have h2' : specNoSpuriousRefusal c ((0 : Nat) : Int) (Op.evs os) ((ClientLimiter.new c).runAt (Op.evs os)) = true := h2
    simp only [specEvs, runAt_length, beq_self_eq_true, h1, h2', Bool.and_self]
  · split
    · -- time stamps in any order, no gc passes
      rename_i hg
      have hrun : (ClientLimiter.new c).runOps os = (ClientLimiter.new c).run (Op.evs os) := runOps_noGc os hg _
      rw [hrun]
      have h1 := segBound_ok c ((specLimit c : Int) - 1 + (0 : Nat)) (by omega) (Op.evs os) (ClientLimiter.new c) rfl
        (ClientLimiter.ok_new c)
      simp only [run_length, beq_self_eq_true, h1, Bool.and_self]
    · rfl

/-- ★ **listener_model_meets_spec.**  For every burst and mask configuration (client rate
    1 token/s, no global limit) and every sequence of client operations (UDP queries, TCP / HTTP /
    DoQ connections with any number of queries, direct calls) from any addresses, the admission
    attempts of the listener model at one instant satisfy the executable specification that
    is used as the oracle on the real router's observed outcomes (`listenerSpec` = `atomsSpec` on
    the attempts + "the upstream saw exactly the answered queries"). -/
theorem listener_model_meets_spec (b m4 g : Int) (hg : g ≤ 0) (ops : List LOp)
    (hs : saneBurst ⟨1, b, m4, 0⟩ = true) :
    atomsSpec ⟨1, b, m4, 0⟩ (specBurst ⟨1, b, m4, 0⟩)
      (listenerAtoms ops (ResLimiter.init ⟨g, ⟨1, b, m4, 0⟩⟩)) [] = true :=
  listenerAtoms_spec ⟨1, b, m4, 0⟩ rfl ops _ [] (lrel_init ⟨1, b, m4, 0⟩ rfl hs g hg)

/-- the model forwards exactly the query attempts it admitted -/
theorem listener_model_forwards (ops : List LOp) (l : ResLimiter) :
    (listenerRunAtoms ops l).2 = handledCount (listenerAtoms ops l) := listenerRunAtoms_fwd ops l

/-- non-vacuity of the attempts specification: over-admission and a refusal within budget -/
example : atomsSpec ⟨1, 2, 0, 0⟩ 2 [⟨.v4 1, 2, 0, true⟩, ⟨.v4 2, 1, 0, true⟩] [] = false := by decide
example : atomsSpec ⟨1, 2, 0, 0⟩ 2 [⟨.v4 0x0A000001, 2, 0, true⟩, ⟨.v4 0x0A000101, 1, 0, false⟩] [] = false := by decide
example : atomsSpec ⟨1, 2, 0, 0⟩ 2 [⟨.v4 0x0A000001, 2, 0, true⟩, ⟨.v4 0x0A000002, 1, 0, false⟩, ⟨.v4 0x0A000101, 1, 0, true⟩] [] = true := by
  decide

/-- the specification is not vacuous: it rejects over-admission … -/
example : spec ⟨1, 2, 0, 0⟩ 0 [.allow ⟨.v4 1, 0, 2⟩, .allow ⟨.v4 2, 0, 1⟩] [true, true] = false := by decide
/-- … it rejects refusing a client because of another subnet's traffic … -/
example : spec ⟨1, 2, 0, 0⟩ 0 [.allow ⟨.v4 0x0A000001, 0, 2⟩, .allow ⟨.v4 0x0A000101, 0, 1⟩] [true, false] = false := by
  decide
/-- … and accepts the correct verdicts -/
example : spec ⟨1, 2, 0, 0⟩ 0 [.allow ⟨.v4 0x0A000001, 0, 2⟩, .allow ⟨.v4 0x0A000002, 0, 1⟩, .allow ⟨.v4 0x0A000101, 0, 1⟩]
    [true, false, true] = true := by decide

/-! ## tie: pinned source facts (regenerated from /repo by the extractor on every run) -/

/-- the defaults are assigned field by field as modelled (`Opts.setDefault`) — in particular the IPv6 default goes to `V6Mask` (D8) —: tied by translation of the whole body of `setDefault` (`Limiter.setDefault_translated`); `NewClientLimiter` applies them -/
theorem pins_defaults :
    Facts.lim_new_setDefault = "opts.setDefault()" := rfl

/-- `mask` unmaps, then masks IPv4 with `V4Mask` and IPv6 with `V6Mask`; `AllowN` keys the table
    by the masked address, creates `rate.NewLimiter(Limit, Burst)` for a missing key, and — with
    the entry's lock held — skips an entry that gc has marked dead (reloading), clamps the
    caller's time stamp to the entry's `lastSeen` (repair f8b61d0: the bucket's clock never goes
    back), records `lastSeen = now` and asks the bucket at that time -/
theorem pins_mask :
    Facts.lim_mask_body = "{ addr = addr.Unmap() if addr.Is4() { return netip.PrefixFrom(addr, cl.opts.V4Mask).Masked().Addr() } if addr.Is6() { return netip.PrefixFrom(addr, cl.opts.V6Mask).Masked().Addr() } return netip.Addr{} }" ∧
    Facts.lim_allowN_body = "{ key := cl.mask(addr) for { e, _ := cl.m.LoadOrCompute(key, func() *e { return &e{l: rate.NewLimiter(rate.Limit(cl.opts.Limit), cl.opts.Burst)} }) e.m.Lock() if e.dead { e.m.Unlock() continue } if now.Before(e.lastSeen) { now = e.lastSeen } e.lastSeen = now ok := e.l.AllowN(now, n) e.m.Unlock() return ok } }" ∧
    Facts.lim_clamp_cond = "now.Before(e.lastSeen)" ∧
    Facts.lim_clamp_stmt = "now = e.lastSeen" := ⟨rfl, rfl, rfl, rfl⟩

/-- `gc` (one locked region per entry): an entry is dropped only if it was last seen more than
    `entryTtl` ago *and* its bucket is full (`gcRequiresFull`, repair 0275661); it is marked
    dead and deleted from the map before the entry's lock is released (repair 8757f14) -/
theorem pins_gc :
    Facts.lim_entryTtl = entryTtl ∧
    Facts.lim_gc_body = "{ now := time.Now() ddl := now.Add(-entryTtl) cl.m.Range(func(key netip.Addr, value *e) bool { value.m.Lock() full := value.l.TokensAt(now) >= float64(value.l.Burst()) if value.lastSeen.Before(ddl) && full { value.dead = true cl.m.Delete(key) } value.m.Unlock() return true }) }" := ⟨rfl, rfl⟩

/-- the cost table -/
theorem pins_costs :
    Facts.lim_costUDPQuery = costUDPQuery ∧
    Facts.lim_costTCPQuery = costTCPQuery ∧
    Facts.lim_costHTTPQuery = costHTTPQuery ∧
    Facts.lim_costQUICQuery = costQUICQuery ∧
    Facts.lim_costTCPConn = costTCPConn ∧
    Facts.lim_costTLSConn = costTLSConn ∧
    Facts.lim_costQuicConn = costQuicConn ∧
    Facts.lim_costFromCache = costFromCache ∧
    Facts.lim_costFromUpstream = costFromUpstream := ⟨rfl, rfl, rfl, rfl, rfl, rfl, rfl, rfl, rfl⟩

/-- `resourceLimiter.AllowN` asks the global limiter first, then the client limiter; `initResourceLimiter` builds them from the configuration (its tests `cfg.GlobalLimit > 0`, `cfg.Client.Limit > 0` are tied by translation: `Limiter.initGlobalCond_translated`, `Limiter.initClientCond_translated`); `limiterAllowN` skips invalid addresses -/
theorem pins_resource :
    Facts.lim_res_allow_body = "{ now := time.Now() if l.global != nil { if !l.global.AllowN(now, n) { return errGlobalResLimit } } if l.cl != nil { if !l.cl.AllowN(addr, now, n) { return errClientResLimit } } return nil }" ∧
    Facts.lim_init_global_new = "l.global = rate.NewLimiter(rate.Limit(cfg.GlobalLimit), cfg.GlobalLimit)" ∧
    Facts.lim_init_client_new = "l.cl = limiter.NewClientLimiter(limiter.ClientLimiterOpts{ Limit: float64(cfg.Client.Limit), Burst: cfg.Client.Burst, V4Mask: cfg.Client.V4Mask, V6Mask: cfg.Client.V6Mask, })" ∧
    Facts.lim_router_allow_body = "{ if !addr.IsValid() { return nil } return r.limiter.AllowN(addr, n) }" := ⟨rfl, rfl, rfl, rfl⟩

/-- every admission point charges the *remote* address (D9: also the QUIC listener) with the cost of the table, and on refusal answers REFUSED / 503 / closes, before anything is handled -/
theorem pins_admission :
    Facts.lim_gnet_query_cond = "ccr > e.maxConcurrent || e.r.limiterAllowN(cc.remoteAddr.Addr(), costTCPQuery) != nil" ∧
    Facts.lim_gnet_query_resp = "resp := mustHaveRespB(m, nil, dnsmsg.RCodeRefused, true, 0)" ∧
    Facts.lim_gnet_query_write = "c.Write(resp)" ∧
    Facts.lim_gnet_query_calls = 1 ∧
    Facts.lim_fasthttp_branch = "if err := h.r.limiterAllowN(remoteAddr.Addr(), costHTTPQuery); err != nil { ctx.SetStatusCode(fasthttp.StatusServiceUnavailable) return }" ∧
    Facts.lim_fasthttp_listener = "l = newListener(l, r.subLoggerForServer(\"server_fasthttp\", cfg.Tag), r.limiter, costTCPConn)" ∧
    Facts.lim_fasthttp_calls = 1 ∧
    Facts.lim_refused_opt_cond = "queryOpt(query) != nil" ∧
    Facts.lim_refused_opt = "resp.Additionals = append(resp.Additionals, newEDNS0(udpSize))" ∧
    Facts.lim_udp_branch = "if err := s.r.limiterAllowN(remoteAddr.Addr(), costUDPQuery); err != nil { resp := mustHaveRespB(m, nil, dnsmsg.RCodeRefused, false, 0) s.writeResp(resp, remoteAddr, oobLocalAddr) pool.ReleaseBuf(resp) return }" ∧
    Facts.lim_udp_calls = 1 ∧
    Facts.lim_tcp_conn_addr = "netAddr2NetipAddr(c.RemoteAddr()).Addr()" ∧
    Facts.lim_tcp_conn_cost = "cost" ∧
    Facts.lim_tcp_conn_tls_cond = "s.tlsConfig != nil" ∧
    Facts.lim_tcp_conn_cost_tls = "cost = costTLSConn" ∧
    Facts.lim_tcp_conn_cost_plain = "cost = costTCPConn" ∧
    Facts.lim_tcp_conn_refused = "c.Close()" ∧
    Facts.lim_tcp_query_cond = "cc > s.maxConcurrent || s.r.limiterAllowN(netAddr2NetipAddr(c.RemoteAddr()).Addr(), costTCPQuery) != nil" ∧
    Facts.lim_tcp_query_resp = "resp := mustHaveRespB(m, nil, dnsmsg.RCodeRefused, true, 0)" ∧
    Facts.lim_tcp_query_write = "c.Write(resp)" ∧
    Facts.lim_tcp_query_calls = 1 ∧
    Facts.lim_http_branch = "if err := h.r.limiterAllowN(remoteAddr.Addr(), costHTTPQuery); err != nil { w.WriteHeader(http.StatusServiceUnavailable) return }" ∧
    Facts.lim_http_remote = "remoteAddr, _ = netip.ParseAddrPort(req.RemoteAddr)" ∧
    Facts.lim_http_listener = "l = newListener(l, h.logger, r.limiter, cost)" ∧
    Facts.lim_http_conn_cost_tls = "cost = costTLSConn" ∧
    Facts.lim_http_conn_cost_plain = "cost = costTCPConn" ∧
    Facts.lim_accept_addr = "remoteAddr := netAddr2NetipAddr(c.RemoteAddr()).Addr()" ∧
    Facts.lim_accept_allow = "err = l.limiter.AllowN(remoteAddr, l.connCost)" ∧
    Facts.lim_accept_refused = "c.Close()" ∧
    Facts.lim_quic_conn_addr = "netAddr2NetipAddr(c.RemoteAddr()).Addr()" ∧
    Facts.lim_quic_conn_cost = "costQuicConn" ∧
    Facts.lim_quic_conn_refused = "c.CloseWithError(0, \"service unavailable, overloaded\")" ∧
    Facts.lim_quic_query_addr = "remoteAddr.Addr()" ∧
    Facts.lim_quic_query_cost = "costQUICQuery" ∧
    Facts.lim_quic_query_remote = "remoteAddr := netAddr2NetipAddr(c.RemoteAddr())" ∧
    Facts.lim_quic_query_branch = "if err := s.r.limiterAllowN(remoteAddr.Addr(), costQUICQuery); err != nil { stream.Close() stream.CancelRead(0) continue }" ∧
    Facts.lim_gnet_conn_addr = "cc.remoteAddr.Addr()" ∧
    Facts.lim_gnet_conn_cost = "costTCPConn" ∧
    Facts.lim_gnet_conn_ctx = "cc := &connCtx{ remoteAddr: netAddr2NetipAddr(c.RemoteAddr()), localAddr: netAddr2NetipAddr(c.LocalAddr()), }" ∧
    Facts.lim_gnet_conn_refused = "return nil, gnet.Close" ∧
    Facts.lim_post_cache_addr = "rc.RemoteAddr.Addr()" ∧
    Facts.lim_post_cache_cost = "costFromCache" ∧
    Facts.lim_post_up_addr = "rc.RemoteAddr.Addr()" ∧
    Facts.lim_post_up_cost = "costFromUpstream" ∧
    Facts.lim_post_count = 2 := ⟨rfl, rfl, rfl, rfl, rfl, rfl, rfl, rfl, rfl, rfl, rfl, rfl, rfl, rfl, rfl, rfl, rfl, rfl, rfl, rfl, rfl, rfl, rfl, rfl, rfl, rfl, rfl, rfl, rfl, rfl, rfl, rfl, rfl, rfl, rfl, rfl, rfl, rfl, rfl, rfl, rfl, rfl, rfl, rfl, rfl⟩

/-- the model's constants are the pinned ones -/
theorem pins_model_constants :
    defaultLimit = 20 ∧ defaultV4Mask = 24 ∧ defaultV6Mask = 48 ∧ gcRequiresFull = true ∧
    Point.cost .udpQuery = Facts.lim_costUDPQuery ∧ Point.cost .tcpQuery = Facts.lim_costTCPQuery ∧
    Point.cost .httpQuery = Facts.lim_costHTTPQuery ∧ Point.cost .quicQuery = Facts.lim_costQUICQuery ∧
    Point.cost .tcpConn = Facts.lim_costTCPConn ∧ Point.cost .tlsConn = Facts.lim_costTLSConn ∧
    Point.cost .httpConn = Facts.lim_costTCPConn ∧ Point.cost .httpsConn = Facts.lim_costTLSConn ∧
    Point.cost .quicConn = Facts.lim_costQuicConn ∧ Point.cost .gnetConn = Facts.lim_costTCPConn ∧
    Point.cost .gnetQuery = Facts.lim_costTCPQuery ∧ Point.cost .fasthttpConn = Facts.lim_costTCPConn ∧
    Point.cost .fasthttpQuery = Facts.lim_costHTTPQuery := by decide

end MosVerif.C15
