/-
  Utilities for the line protocol driver: hex encoding, token splitting.
  Core-only (no Mathlib) so that `mvmodel` links.
-/
namespace MosVerif

def hexDigit (n : Nat) : Char :=
  if n < 10 then Char.ofNat (48 + n) else Char.ofNat (87 + n)

def hexOfByte (b : UInt8) : String :=
  String.ofList [hexDigit (b.toNat / 16), hexDigit (b.toNat % 16)]

def hexOfBytes (bs : List UInt8) : String :=
  if bs.isEmpty then "-" else String.join (bs.map hexOfByte)

def hexVal (c : Char) : Option Nat :=
  if '0' ≤ c ∧ c ≤ '9' then some (c.toNat - 48)
  else if 'a' ≤ c ∧ c ≤ 'f' then some (c.toNat - 87)
  else if 'A' ≤ c ∧ c ≤ 'F' then some (c.toNat - 55)
  else none

def bytesOfHexChars : List Char → Option (List UInt8)
  | [] => some []
  | [_] => none
  | a :: b :: rest =>
    match hexVal a, hexVal b, bytesOfHexChars rest with
    | some x, some y, some r => some (UInt8.ofNat (x * 16 + y) :: r)
    | _, _, _ => none

/-- "-" is the empty byte string. -/
def bytesOfHex (s : String) : Option (List UInt8) :=
  if s == "-" then some [] else bytesOfHexChars s.toList

def natOfStr (s : String) : Option Nat := s.toNat?

def boolOfStr (s : String) : Option Bool :=
  if s == "1" then some true else if s == "0" then some false else none

def strOfBool (b : Bool) : String := if b then "1" else "0"

def words (s : String) : List String :=
  (s.splitOn " ").filter (· ≠ "")

end MosVerif

namespace MosVerif

/-- Look up `key=value` among space separated tokens. -/
def kvGet (toks : List String) (key : String) : Option String :=
  match toks with
  | [] => none
  | t :: rest =>
    match t.splitOn "=" with
    | [k, v] => if k == key then some v else kvGet rest key
    | _ => kvGet rest key

def kvNat (toks : List String) (key : String) : Option Nat :=
  (kvGet toks key).bind natOfStr

end MosVerif
