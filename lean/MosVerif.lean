-- Root of the `MosVerif` library: models (core-only), generated facts, property theorems.
import MosVerif.Util
import MosVerif.Generated.Facts
import MosVerif.Model.Fallback
import MosVerif.Props.C16
