/-
  mvmodel — line protocol driver.
  stdin : `<component>\t<case>\t<impl output>` per line
  stdout: `<model output>\t<verdict>` per line, verdict ∈ ok | viol[:reason] | unparsed | na
-/
import MosVerif.Generated.Dispatch
open MosVerif

partial def loop (h : IO.FS.Stream) (out : IO.FS.Stream) : IO Unit := do
  let line ← h.getLine
  if line.isEmpty then return ()
  let line := if line.endsWith "\n" then (line.dropEnd 1).toString else line
  match line.splitOn "\t" with
  | [comp, case, impl] =>
    let (m, v) := dispatch comp case impl
    out.putStrLn (m ++ "\t" ++ v)
  | [comp, case] =>
    let (m, v) := dispatch comp case ""
    out.putStrLn (m ++ "\t" ++ v)
  | _ => out.putStrLn "bad-line\tna"
  loop h out

def main : IO Unit := do
  let stdin ← IO.getStdin
  let stdout ← IO.getStdout
  loop stdin stdout
