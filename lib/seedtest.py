#!/usr/bin/env python3
"""Run the checks against a seeded change without touching /repo:
   lib/seedtest.py <patch.diff> <Cxx> [<Cyy> …] [--tier quick|thorough]
A scratch copy of /repo is made under /tmp, the patch applied, `./check Cxx` run with VERIF_REPO pointing at it,
and the copy removed. Prints one line per property: CAUGHT / MISSED (+ the VIOLATION line)."""
import os, shutil, subprocess, sys, tempfile

def main():
    a = sys.argv[1:]
    tier = "quick"
    if "--tier" in a:
        i = a.index("--tier"); tier = a[i + 1]; del a[i:i + 2]
    patch, props = os.path.abspath(a[0]), a[1:]
    root = os.path.dirname(os.path.dirname(os.path.abspath(__file__)))
    tmp = tempfile.mkdtemp(prefix="seedtest-")
    repo = os.path.join(tmp, "repo")
    try:
        subprocess.run(["rsync", "-a", "--exclude", ".git", "/repo/", repo + "/"], check=True)
        r = subprocess.run(["git", "apply", "--unsafe-paths", "--directory", repo, patch], capture_output=True, text=True, cwd="/")
        if r.returncode != 0:
            r = subprocess.run(["patch", "-p1", "-d", repo, "-i", patch], capture_output=True, text=True)
            if r.returncode != 0:
                print("PATCH-FAILED", r.stdout[-500:], r.stderr[-500:]); return 2
        rc_all = 0
        for p in props:
            env = dict(os.environ, VERIF_REPO=repo)
            r = subprocess.run([os.path.join(root, "check"), p, "--tier", tier], capture_output=True, text=True, env=env, cwd=root)
            line = [l for l in r.stdout.split("\n") if l.startswith("VIOLATION")]
            print(f"{p}: {'CAUGHT' if r.returncode == 1 else 'MISSED' if r.returncode == 0 else 'ERROR'} {line[0] if line else ''}", flush=True)
            if r.returncode not in (0, 1):
                print(r.stdout[-800:], r.stderr[-1500:])
    finally:
        shutil.rmtree(tmp, ignore_errors=True)
    return 0

if __name__ == "__main__":
    sys.exit(main())
