#!/usr/bin/env python3
"""Re-run the checks against every seeded change and every fix revert kept under /verif/seeded:
   lib/seedall.py <log> [--only <id-prefix>] [--jobs N]
For each seeded/<id>/ (patch.diff + meta.json) the checks of the property it breaks and of the properties that
caught it before are run against a patched scratch copy (lib/seedtest.py); for each seeded/reverts/<commit>.diff
the checks listed in seeded/reverts/INDEX.json. Output lines have the format lib/seedsummary.py reads."""
import glob, json, os, re, subprocess, sys
from concurrent.futures import ThreadPoolExecutor

root = os.path.dirname(os.path.dirname(os.path.abspath(__file__)))

def main():
    a = sys.argv[1:]
    log = a[0]
    only = a[a.index("--only") + 1] if "--only" in a else ""
    jobs = int(a[a.index("--jobs") + 1]) if "--jobs" in a else 2
    skip = a[a.index("--skip") + 1].split(",") if "--skip" in a else []
    work = []
    for d in sorted(glob.glob(os.path.join(root, "seeded", "C*"))):
        mp = os.path.join(d, "meta.json")
        if not os.path.exists(mp):
            continue
        meta = json.load(open(mp))
        if os.path.exists(os.path.join(d, "OBSOLETE.txt")):
            continue   # the repaired code no longer has the mechanism this change broke
        if only and not meta["id"].startswith(only):
            continue
        if any(meta["property"] == x for x in skip):
            continue
        m = re.match(r"(C\d+)-(C\d+)-m(\d+)", meta["id"])
        props = [meta["property"]] + sorted(p for p in set(meta.get("caught_by", [])) | set(meta.get("results", {})) if p != meta["property"])
        work.append((f"== seed-{m.group(2)} mutant{m.group(3)} -> {' '.join(props)}", os.path.join(d, "patch.diff"), props))
    idx = os.path.join(root, "seeded", "reverts", "INDEX.json")
    if os.path.exists(idx):
        for commit, props in json.load(open(idx)).items():
            if only and not commit.startswith(only):
                continue
            if any(x in props for x in skip):
                continue
            work.append((f"== revert {commit} -> {' '.join(props)}", os.path.join(root, "seeded", "reverts", commit + ".diff"), props))

    def run(w):
        head, patch, props = w
        r = subprocess.run([sys.executable, os.path.join(root, "lib", "seedtest.py"), patch] + props, capture_output=True, text=True)
        return head + "\n" + r.stdout

    with open(log, "a") as f, ThreadPoolExecutor(jobs) as ex:
        for out in ex.map(run, work):
            f.write(out)
            f.flush()
        f.write("DONE\n")

if __name__ == "__main__":
    main()
