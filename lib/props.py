"""Per-property wiring: which harness components decide which property."""

PROPS = {
    "C16": {
        "components": ["fallback"],
        "assumptions": [
            "the UDP and TCP legs are parameters of the model (their own behaviour is C05/C06/C14)",
            "loopback UDP does not lose datagrams",
        ],
    },
}
