#!/bin/sh
# builds the harness against /repo into $1 without touching harness/go.mod (which ./check regenerates per run)
set -e
out=${1:-/tmp/mvh-dev}
sed -e 's|^module .*|module github.com/IrineSistiana/mosproxy/verifharness|' /repo/go.mod > /tmp/devh.mod
printf '\nrequire github.com/IrineSistiana/mosproxy v0.0.0\n\nreplace github.com/IrineSistiana/mosproxy => /repo\n' >> /tmp/devh.mod
cp /repo/go.sum /tmp/devh.sum
cd "$(dirname "$0")/../harness"
GOFLAGS=-mod=mod GOPROXY=off GOSUMDB=off GOTOOLCHAIN=local go build -modfile=/tmp/devh.mod -tags verif -o "$out" ./cmd/mvharness
