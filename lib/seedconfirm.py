#!/usr/bin/env python3
"""Confirm a seeded change independently and file it under /verif/seeded/:
   lib/seedconfirm.py <out-dir> <n> <property> [<caught-by …>]
In a scratch copy of /repo: (1) the demonstration passes on the unchanged code, (2) with the patch applied the tree
builds, the existing test suite passes (the known-flaky Test_ReuseConnTransport is retried), and the demonstration fails."""
import json, os, re, shutil, subprocess, sys, tempfile, glob

ENV = dict(os.environ, GOFLAGS="-mod=mod", GOPROXY="off", GOSUMDB="off", GOTOOLCHAIN="local")

def sh(cmd, cwd, timeout=1800):
    p = subprocess.run(cmd, cwd=cwd, env=ENV, shell=isinstance(cmd, str), capture_output=True, text=True, timeout=timeout)
    return p.returncode, (p.stdout + p.stderr)

def main():
    out, n, prop = sys.argv[1], sys.argv[2], sys.argv[3]
    caught = sys.argv[4:]
    patch = os.path.join(out, f"mutant{n}.diff")
    demos = glob.glob(os.path.join(out, f"demo{n}_test.go")) or glob.glob(os.path.join(out, f"demo{n}*"))
    demo = demos[0]
    head = open(demo).read(3000)
    m = re.search(r"[Pp]lace this file in:?\s*([A-Za-z0-9_./-]+/)", head) or re.search(r"[Pp]lace this file at\s*([A-Za-z0-9_./-]+/)zz_", head)
    d = m.group(1)
    m = re.search(r"(go test [^\n]*)", head)
    cmd = m.group(1).strip()
    tmp = tempfile.mkdtemp(prefix="seedconfirm-")
    repo = os.path.join(tmp, "repo")
    res = {}
    try:
        subprocess.run(["rsync", "-a", "--exclude", ".git", "/repo/", repo + "/"], check=True)
        dst = os.path.join(repo, d, f"zz_mutant_demo{n}_test.go")
        shutil.copy(demo, dst)
        rc, o = sh(cmd, repo)
        res["demo_on_unchanged"] = "pass" if rc == 0 else "FAIL"
        r = subprocess.run(["patch", "-p1", "-d", repo, "-i", os.path.abspath(patch)], capture_output=True, text=True)
        res["patch_applies"] = r.returncode == 0
        rc, o = sh("go build ./... && go build -tags verif ./...", repo)
        res["builds"] = rc == 0
        os.remove(dst)
        ok = False
        for _ in range(3):
            rc, o = sh("go test -mod=mod -vet=off -count=1 ./...", repo)
            fails = re.findall(r"^--- FAIL: (\S+)", o, re.M)
            if rc == 0 or set(fails) <= {"Test_ReuseConnTransport"}:
                ok = True
                break
        res["suite_passes"] = ok
        if not ok:
            res["suite_failures"] = fails
        shutil.copy(demo, dst)
        rc, o = sh(cmd, repo)
        res["demo_with_change"] = "fail" if rc != 0 else "PASS"
        res["demo_cmd"] = cmd
        res["demo_dir"] = d
    finally:
        shutil.rmtree(tmp, ignore_errors=True)
    good = res.get("demo_on_unchanged") == "pass" and res.get("patch_applies") and res.get("builds") and res.get("suite_passes") and res.get("demo_with_change") == "fail"
    print(json.dumps(res), "CONFIRMED" if good else "NOT-CONFIRMED")
    if good:
        root = os.path.dirname(os.path.dirname(os.path.abspath(__file__)))
        sid = os.environ.get("SEED_ID") or f"{prop}-{os.path.basename(out.rstrip('/')).replace('seed-','').replace('-out','')}-m{n}"
        dest = os.path.join(root, "seeded", sid)
        os.makedirs(dest, exist_ok=True)
        shutil.copy(patch, os.path.join(dest, "patch.diff"))
        shutil.copy(demo, os.path.join(dest, os.path.basename(demo)))
        readme = os.path.join(out, "README.md")
        if os.path.exists(readme):
            shutil.copy(readme, os.path.join(dest, "AUTHOR_README.md"))
        meta = {"id": sid, "property": prop, "source": "independent sub-agent given only the property text and a scratch worktree",
                "confirmed": res, "caught_by": caught,
                "what_i_ran": [f"demo on unchanged scratch copy: {cmd}", "patch -p1; go build ./... (also -tags verif); go test -mod=mod -vet=off -count=1 ./...", f"demo with the change: {cmd}", "lib/seedtest.py patch.diff <properties> (./check with VERIF_REPO pointing at a patched scratch copy)"]}
        json.dump(meta, open(os.path.join(dest, "meta.json"), "w"), indent=1)
    return 0 if good else 1

if __name__ == "__main__":
    sys.exit(main())
