HOOK_COMMITS = []

ALL = ["C%02d" % i for i in range(1, 21)]

META = {
    "C16": {
        "text": "Lean 4 theorems over the model of udpWithFallback.ExchangeContext for every query and every behaviour of the UDP and TCP legs (tc_goes_tcp, no_tc_no_tcp, never_truncated_udp, model_meets_spec); the model is tied to the code by two pinned source facts and by differential runs of the real NewUpstream against scripted UDP+TCP servers.",
        "design_ref": "DESIGN.md §5 C16",
        "note": "Trusted: Lean kernel; the extractor; the harness' fake servers; the two legs' own behaviour (C05/C06/C14) is a parameter of the model.",
        "technique": "Lean 4 proof over an executable model + regenerated source facts + differential correspondence",
    },
}

from props import PROPS
NOT_APPLICABLE = [
    {"property_id": p, "reason": "not yet claimed: model/theorems/tie for this property are still being built (see DESIGN.md §10 order of work)"}
    for p in ALL if p not in PROPS
]
