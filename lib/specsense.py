#!/usr/bin/env python3
"""Sensitivity of the executable specifications: for every component, run the harness (quick tier) on the unchanged
tree, perturb each observed output (digits shifted, a token dropped, ok/fail words swapped) and ask the model
driver for its verdict on the perturbed observation. A component whose verdict never leaves `ok` is judged by
nothing (the tie would still notice a difference, but no failing input could ever be named).
   lib/specsense.py [component …]          (needs ./check setup to have built .cache/bin and the model)"""
import os, re, subprocess, sys, concurrent.futures as cf
ROOT = os.path.dirname(os.path.dirname(os.path.abspath(__file__)))
H = os.path.join(ROOT, ".cache/bin/mvharness")
M = os.path.join(ROOT, "lean/.lake/build/bin/mvmodel")

def perturb(impl):
    head, sep, tail = impl.partition(" ## ")
    out = []
    out.append(re.sub(r"\d", lambda m: str((int(m.group()) + 1) % 10), head))
    toks = head.split(" ")
    if len(toks) > 1:
        out.append(" ".join(toks[:-1]))
    parts = head.rsplit(",", 1)
    if len(parts) == 2:
        out.append(parts[0])
    sw = {"ok": "fail", "fail": "ok", "resp": "none", "some": "none", "none": "some"}
    out.append(re.sub(r"\b(ok|fail|resp|some|none)\b", lambda m: sw[m.group()], head))
    return [o for o in dict.fromkeys(out) if o != head]

def one(comp):
    env = dict(os.environ, GOFLAGS="-mod=mod", GOPROXY="off")
    try:
        p = subprocess.run([H, "gen", comp, "quick", "1"], capture_output=True, text=True, timeout=900, env=env, cwd=ROOT)
    except subprocess.TimeoutExpired:
        return comp, None
    rows = [l.split("\t") for l in p.stdout.split("\n") if l and not l.startswith("#")]
    rows = [r for r in rows if len(r) == 2][:400]
    inp, n = [], 0
    for c, i in rows:
        for v in perturb(i):
            inp.append(f"{comp}\t{c}\t{v}\n")
    if not inp:
        return comp, (len(rows), 0, 0)
    mp = subprocess.run([M], input="".join(inp), capture_output=True, text=True, timeout=600)
    vs = [l.split("\t")[1] if "\t" in l else "na" for l in mp.stdout.split("\n") if l]
    notok = sum(1 for v in vs if v not in ("ok", "na"))
    return comp, (len(rows), len(vs), notok)

def main():
    comps = sys.argv[1:]
    if not comps:
        comps = [l.strip() for l in subprocess.run([H, "list"], capture_output=True, text=True).stdout.split("\n") if l.strip()]
    with cf.ThreadPoolExecutor(6) as ex:
        for comp, r in ex.map(one, comps):
            if r is None:
                print(f"{comp:22s} timeout"); continue
            rows, n, notok = r
            flag = "  <-- never leaves ok" if n and notok == 0 else ""
            print(f"{comp:22s} rows={rows:5d} perturbed={n:6d} flagged={notok:6d}{flag}", flush=True)

if __name__ == "__main__":
    main()
