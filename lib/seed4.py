#!/usr/bin/env python3
"""Wave 4: confirm the two changes a sub-agent left in /tmp/seed4/<Cxx>-out, file them as seeded/<Cxx>-<Cxx>-m5/-m6,
run the check of the property against each (lib/seedtest.py) and record the outcome in meta.json and seeded/logs/wave4.log.
   lib/seed4.py Cxx [extra-property …]"""
import json, os, subprocess, sys
root = os.path.dirname(os.path.dirname(os.path.abspath(__file__)))
prop = sys.argv[1]
extra = sys.argv[2:]
wave = int(os.environ.get("WAVE", "4"))   # wave 4 -> m5/m6, wave 5 -> m7/m8
out = f"/tmp/seed{wave}/{prop}-out"
log = open(os.path.join(root, "seeded", "logs", f"wave{wave}.log"), "a")
for n in (1, 2):
    sid = f"{prop}-{prop}-m{n + 4 + 2 * (wave - 4)}"
    if not os.path.exists(os.path.join(out, f"mutant{n}.diff")):
        print(sid, "no diff"); continue
    env = dict(os.environ, SEED_ID=sid)
    r = subprocess.run([sys.executable, os.path.join(root, "lib", "seedconfirm.py"), out, str(n), prop], capture_output=True, text=True, env=env)
    print(sid, r.stdout.strip()[-300:], r.stderr.strip()[-300:], flush=True)
    if "NOT-CONFIRMED" in r.stdout or r.returncode != 0:
        log.write(f"== {sid} NOT-CONFIRMED {r.stdout.strip()[-300:]}\n"); log.flush(); continue
    d = os.path.join(root, "seeded", sid)
    r = subprocess.run([sys.executable, os.path.join(root, "lib", "seedtest.py"), os.path.join(d, "patch.diff"), prop] + extra, capture_output=True, text=True)
    print(r.stdout.strip(), flush=True)
    log.write(f"== {sid} -> {prop} {' '.join(extra)}\n{r.stdout}"); log.flush()
    meta = json.load(open(os.path.join(d, "meta.json")))
    res = {}
    for line in r.stdout.split("\n"):
        p = line.split(":")[0]
        if p.startswith("C") and len(p) == 3:
            res[p] = "caught (no-failing-input-found)" if "no-failing-input-found" in line else "caught with a failing input" if "CAUGHT" in line else "missed" if "MISSED" in line else "error"
    meta["results_first_run"] = res
    meta["wave"] = wave
    json.dump(meta, open(os.path.join(d, "meta.json"), "w"), indent=1)
