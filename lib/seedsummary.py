#!/usr/bin/env python3
"""Collects the outcomes of lib/seedtest.py runs (logs given as arguments, later logs override earlier ones),
updates seeded/<id>/meta.json (`results`) and prints a markdown table for DESIGN.md."""
import glob, json, os, re, sys
root = os.path.dirname(os.path.dirname(os.path.abspath(__file__)))
res = {}   # (src, n) -> {prop: outcome}
for log in sys.argv[1:]:
    cur = None
    for line in open(log):
        m = re.match(r"== seed(3?)-(C\d+) mutant(\d+)", line)
        if m:   # wave 3 ("seed3-") mutants 1,2 are filed as m3,m4
            cur = (m.group(2), str(int(m.group(3)) + (2 if m.group(1) else 0))); continue
        if line.startswith("== "):   # a revert (second pass) or another header: not a seeded change
            cur = None; continue
        m = re.match(r"(C\d+): (CAUGHT|MISSED|ERROR)(.*)", line)
        if m and cur:
            tail = m.group(3)
            kind = m.group(2)
            if kind == "CAUGHT":
                if "no-failing-input-found" in tail:
                    kind = "caught (broken pin/tie, no-failing-input-found)"
                else:
                    mm = re.search(r"replays/C\d+-([a-z0-9_]+)-", tail)
                    kind = "caught with a failing input" + (f" ({mm.group(1)})" if mm else "")
            res.setdefault(cur, {})[m.group(1)] = kind.lower() if kind in ("MISSED", "ERROR") else kind
rev = {}
for log in sys.argv[1:]:
    cur = None
    for line in open(log):
        m = re.match(r"== revert (\w+)", line)
        if m:
            cur = m.group(1); continue
        if line.startswith("== "):
            cur = None; continue
        m = re.match(r"(C\d+): (CAUGHT|MISSED|ERROR)(.*)", line)
        if m and cur:
            kind = m.group(2).lower()
            if kind == "caught":
                if "no-failing-input-found" in m.group(3):
                    kind = "caught (broken pin/tie, no-failing-input-found)"
                else:
                    mm = re.search(r"replays/C\d+-([a-z0-9_]+)-", m.group(3))
                    kind = "caught with a failing input" + (f" ({mm.group(1)})" if mm else "")
            rev.setdefault(cur, {})[m.group(1)] = kind
rows = []
for d in sorted(glob.glob(os.path.join(root, "seeded", "*"))):
    mp = os.path.join(d, "meta.json")
    if not os.path.exists(mp):
        continue
    meta = json.load(open(mp))
    m = re.match(r"(C\d+)-(C\d+)-m(\d+)", meta["id"])
    src, n = m.group(2), m.group(3)
    r = res.get((src, n))
    if r is None:   # not in these logs: keep what is recorded
        r = meta.get("results", {})
    else:
        meta["results"] = r
        meta["caught_by"] = sorted(p for p, v in r.items() if v.startswith("caught"))
        json.dump(meta, open(mp, "w"), indent=1)
    what = ""
    rd = os.path.join(d, "AUTHOR_README.md")
    if os.path.exists(os.path.join(d, "OBSOLETE.txt")):
        rows.append((meta["id"], meta["property"], "obsolete on the current tree: a later repair removed the mechanism it broke (OBSOLETE.txt); before that: " + "; ".join(f"{p}: {v}" for p, v in sorted(r.items()))))
        continue
    rows.append((meta["id"], meta["property"], "; ".join(f"{p}: {v}" for p, v in sorted(r.items()))))
print("| seeded change | breaks | outcome of `./check` (quick tier) |\n|---|---|---|")
for r in rows:
    print(f"| {r[0]} | {r[1]} | {r[2]} |")
if rev:
    fixes = {f["commit"]: f for f in json.load(open(os.path.join(root, "known_findings.json")))["findings"] if f.get("commit")}
    print("\n| repair reverted | defect | outcome of `./check` (quick tier) |\n|---|---|---|")
    for c, r in rev.items():
        f = fixes.get(c, {})
        print(f"| {c} | {f.get('id','?')} ({f.get('property','?')}) | " + "; ".join(f"{p}: {v}" for p, v in sorted(r.items())) + " |")

