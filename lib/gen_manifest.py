#!/usr/bin/env python3
"""Regenerates /verif/MANIFEST.json from lib/props.py and lib/manifest_meta.py."""
import json, os, sys
ROOT = os.path.dirname(os.path.dirname(os.path.abspath(__file__)))
sys.path.insert(0, os.path.join(ROOT, "lib"))
from props import PROPS
from manifest_meta import META, NOT_APPLICABLE, HOOK_COMMITS

checks = []
for pid in sorted(PROPS):
    m = META[pid]
    checks.append({
        "property_id": pid,
        "quick_cmd": f"./check {pid} --tier quick",
        "thorough_cmd": f"./check {pid} --tier thorough",
        "evidence_file": f"/verif/evidence/{pid}.json",
        "replay_cmd_template": "./check replay {path}",
        "engine": "lean4-proof+tie",
        "level_claimed": {"category": "proof", "text": m["text"], "design_ref": m["design_ref"]},
        "level_note": m["note"],
        "technique": m["technique"],
    })
man = {
    "version": 1,
    "setup_cmd": "./check setup",
    "hooks": {
        "guard": "verif",
        "enable": "go build -tags verif (the harness module /verif/harness replaces github.com/IrineSistiana/mosproxy by /repo)",
        "baseline_off_cmd": "cd /repo && go test -mod=mod -vet=off -count=1 ./...",
        "source_commits": HOOK_COMMITS,
        "add_only": True,
    },
    "engines": [{
        "name": "lean4-proof+tie",
        "path": "/verif/lean (theorems, models, mvmodel driver), /verif/extract (fact extractor), /verif/harness (differential harness), /verif/check",
        "serves_properties": sorted(PROPS),
        "kind_free_text": "machine-checked Lean 4 theorems about executable models; models tied to the Go source by regenerated facts and by differential correspondence runs",
    }],
    "checks": checks,
    "not_applicable": NOT_APPLICABLE,
    "notes": "See DESIGN.md. Every check rebuilds facts, theorems, the model driver and the Go harness from /repo's working tree.",
}
json.dump(man, open(os.path.join(ROOT, "MANIFEST.json"), "w"), indent=1)
print("wrote MANIFEST.json with", len(checks), "checks")
