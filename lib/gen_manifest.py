#!/usr/bin/env python3
"""Regenerates /verif/MANIFEST.json from lib/props.py and lib/manifest_meta.py."""
import json, os, sys
ROOT = os.path.dirname(os.path.dirname(os.path.abspath(__file__)))
import glob, subprocess
PROPS = {os.path.basename(f)[:-5]: json.load(open(f)) for f in sorted(glob.glob(os.path.join(ROOT, "props", "C*.json")))}
META = {k: v["manifest"] for k, v in PROPS.items()}
ALL = ["C%02d" % i for i in range(1, 21)]
NA_REASONS = json.load(open(os.path.join(ROOT, "props", "not_applicable.json")))
NOT_APPLICABLE = [{"property_id": p, "reason": NA_REASONS.get(p, "not yet claimed: the model, theorems and tie for this property are still being built (DESIGN.md §10)")} for p in ALL if p not in PROPS]
HOOK_COMMITS = subprocess.run(["git", "-C", "/repo", "log", "--format=%H", "--grep=^verif hooks"], capture_output=True, text=True).stdout.split()

checks = []
for pid in sorted(PROPS):
    m = META[pid]
    checks.append({
        "property_id": pid,
        "quick_cmd": f"./check {pid} --tier quick",
        "thorough_cmd": f"./check {pid} --tier thorough",
        "evidence_file": f"/verif/evidence/{pid}.json",
        "replay_cmd_template": "./check replay {path}",
        "engine": "lean4-proof+tie",
        "level_claimed": {"category": "proof", "text": m["text"], "design_ref": m["design_ref"]},
        "level_note": m["note"],
        "technique": m["technique"],
    })
man = {
    "version": 1,
    "setup_cmd": "./check setup",
    "hooks": {
        "guard": "verif",
        "enable": "go build -tags verif (the harness module /verif/harness replaces github.com/IrineSistiana/mosproxy by /repo)",
        "baseline_off_cmd": "cd /repo && go test -mod=mod -vet=off -count=1 ./...",
        "source_commits": HOOK_COMMITS,
        "add_only": True,
    },
    "engines": [{
        "name": "lean4-proof+tie",
        "path": "/verif/lean (theorems, models, mvmodel driver), /verif/extract (fact extractor), /verif/harness (differential harness), /verif/check",
        "serves_properties": sorted(PROPS),
        "kind_free_text": "machine-checked Lean 4 theorems about executable models; models tied to the Go source by regenerated facts and by differential correspondence runs",
    }],
    "checks": checks,
    "not_applicable": NOT_APPLICABLE,
    "notes": "See DESIGN.md. Every check rebuilds facts, theorems, the model driver and the Go harness from /repo's working tree.",
}
json.dump(man, open(os.path.join(ROOT, "MANIFEST.json"), "w"), indent=1)
print("wrote MANIFEST.json with", len(checks), "checks")
